//go:build verif

// C14: Go converters invert builders. DESIGN.md §6 C14.
//
// Space: struct-rooted schemas of grammar G (+ bldrun.ExtraSchemas) × builder
// variants (plain + one veneer rule) × the first ≤10 documents the reference
// validators accept. Stage 1 decodes every document into the generated root
// type and calls the generated converter; stage 2 writes every returned
// expression into generated Go (one package per unit, one package per
// expression where a unit's package does not compile), compiles, runs
// `.Build()` and compares the rebuilt object with the converter's input.
package main

import (
	"fmt"
	goast "go/ast"
	"go/parser"
	"go/token"
	"os"
	"path/filepath"
	"regexp"
	"sort"
	"strings"
	"time"

	"github.com/grafana/cog/internal/ast"
	"github.com/grafana/cog/verifx/bldrun"
	"github.com/grafana/cog/verifx/genrun"
	"github.com/grafana/cog/verifx/gschema"
	"github.com/grafana/cog/verifx/vx"
)

var (
	reQuoted = regexp.MustCompile(`"[^"]*"|'[^']*'`)
	reDigits = regexp.MustCompile(`[0-9]+`)
	reIDs    = regexp.MustCompile(`s[0-9]{4}[joc][0-9a-z]t?x?`)
	rePos    = regexp.MustCompile(`^[^ ]*\.go:[0-9]+:[0-9]+: `)
)

func normDiag(s string) string {
	s = rePos.ReplaceAllString(s, "")
	s = reIDs.ReplaceAllString(s, "<id>")
	s = reQuoted.ReplaceAllString(s, `"…"`)
	s = reDigits.ReplaceAllString(s, "N")
	s = strings.Join(strings.Fields(s), " ")
	if len(s) > 160 {
		s = s[:160]
	}
	return s
}

const maxDocs = 10

// conv is one converter execution.
type conv struct {
	c     *bldrun.Case
	u     *bldrun.LUnit
	k     int
	doc   string
	label string // class of the value (scenario documents only); part of the kind
	input any // re-encoding of the decoded document: the converter's input
	expr  string
	// stage 2
	pkg       string // import path of the package holding the expression
	compiled  bool
	diag      []string
	parseErr  string
	chainErrs []string
}

const convHooks = `package main

import "encoding/json"

var exprTables = map[string]map[string]func() (any, error){}

func regExprs(key string, m map[string]func() (any, error)) { exprTables[key] = m }

func init() {
	hooks["runexpr"] = func(req map[string]any) map[string]any {
		resp := map[string]any{}
		unit, _ := req["unit"].(string)
		k, _ := req["k"].(string)
		f, ok := exprTables[unit][k]
		if !ok {
			f, ok = exprTables[unit+"/"+k][k]
		}
		if !ok {
			resp["problem"] = "expression not linked"
			return resp
		}
		obj, err := f()
		if err != nil {
			resp["err"] = err.Error()
		}
		j, jerr := json.Marshal(obj)
		if jerr != nil {
			resp["problem"] = "rebuilt object does not encode: " + jerr.Error()
			return resp
		}
		resp["json"] = string(j)
		return resp
	}
}
`

func pkgSource(id string, exprs map[int]string) string {
	var b strings.Builder
	// the expression is written over the packages p and cog of the unit; the
	// standard package time is imported as well (values of date-time members
	// are printed as time.Date(...) calls)
	fmt.Fprintf(&b, "package conv\n\nimport (\n\t\"time\"\n\tcog %q\n\tp %q\n)\n\nvar _ cog.Builder[p.Root]\nvar _ time.Time\n\n", "verifgen/"+id+"/cog", "verifgen/"+id+"/p")
	b.WriteString("var Exprs = map[string]func() (any, error){\n")
	var ks []int
	for k := range exprs {
		ks = append(ks, k)
	}
	sort.Ints(ks)
	for _, k := range ks {
		fmt.Fprintf(&b, "\t\"%d\": func() (any, error) {\n\t\treturn %s.Build()\n\t},\n", k, exprs[k])
	}
	b.WriteString("}\n")
	return b.String()
}

// chain describes one builder call chain found in an expression.
type chain struct {
	Ctor    string   // New<X>Builder
	Methods []string // in call order
	CtorArgs int
}

// chains parses expr and returns every builder chain in it (the root chain first).
func chains(expr string) ([]chain, string) {
	e, err := parser.ParseExpr(expr)
	if err != nil {
		return nil, err.Error()
	}
	var out []chain
	var rootErr string
	var visit func(n goast.Expr, top bool)
	collect := func(call *goast.CallExpr) (chain, bool) {
		// unwind x.M1(...).M2(...) down to p.NewXBuilder(...)
		var methods []string
		cur := call
		for {
			sel, ok := cur.Fun.(*goast.SelectorExpr)
			if !ok {
				return chain{}, false
			}
			if id, ok := sel.X.(*goast.Ident); ok {
				if id.Name == "p" && strings.HasPrefix(sel.Sel.Name, "New") && strings.HasSuffix(sel.Sel.Name, "Builder") {
					for i, j := 0, len(methods)-1; i < j; i, j = i+1, j-1 {
						methods[i], methods[j] = methods[j], methods[i]
					}
					return chain{Ctor: sel.Sel.Name, Methods: methods, CtorArgs: len(cur.Args)}, true
				}
				return chain{}, false
			}
			inner, ok := sel.X.(*goast.CallExpr)
			if !ok {
				return chain{}, false
			}
			methods = append(methods, sel.Sel.Name)
			cur = inner
		}
	}
	seen := map[*goast.CallExpr]bool{}
	visit = func(n goast.Expr, top bool) {
		goast.Inspect(n, func(x goast.Node) bool {
			call, ok := x.(*goast.CallExpr)
			if !ok || seen[call] {
				return true
			}
			if ch, ok := collect(call); ok {
				out = append(out, ch)
				// mark the inner calls of this chain as seen, but still visit their arguments
				cur := call
				for {
					seen[cur] = true
					sel := cur.Fun.(*goast.SelectorExpr)
					inner, ok := sel.X.(*goast.CallExpr)
					if !ok {
						break
					}
					cur = inner
				}
			}
			return true
		})
	}
	if call, ok := e.(*goast.CallExpr); ok {
		if _, ok := collect(call); !ok {
			rootErr = "the expression is not a call chain on a builder constructor of package p"
		}
	} else {
		rootErr = "the expression is not a call"
	}
	visit(e, true)
	return out, rootErr
}

func main() {
	r := vx.Start("C14")
	genrun.MaybeServe()
	r.PerKindSmallest = true
	opts := bldrun.Opts{Name: "c14", Thorough: r.Thorough(), Converters: true}
	if r.Replay != "" {
		_, witness, _ := r.ReplayFile()
		opts.Only = witness
		opts.Thorough = true
		fmt.Println("replaying", witness)
	}
	t0 := time.Now()
	lap := func(what string) {
		if os.Getenv("C14_NOTES") != "" {
			fmt.Fprintf(os.Stderr, "LAP %s %.1fs\n", what, time.Since(t0).Seconds())
		}
	}
	ws := genrun.NewWorkspace("c14")
	defer ws.Close()
	prep, err := bldrun.Prepare(ws, opts)
	if err != nil {
		ws.Close()
		vx.Fatalf("%v", err)
	}
	if r.Replay != "" && len(prep.Cases) == 0 {
		ws.Close()
		vx.Fatalf("replay: case %q is not in the space", opts.Only)
	}
	lap("prepare")
	eng := bldrun.NewEngine(prep, nil)
	samples := &vx.Samples{N: 10}
	notes := map[string]string{}
	note := func(k, ex string) {
		eng.Bump(k)
		if _, ok := notes[k]; !ok {
			notes[k] = ex
		}
	}
	trans := 0
	outcomes := map[string]bool{}

	fail := func(cv *conv, clause, diag, class, what string) {
		kind := "converter: " + clause
		if d := normDiag(diag); d != "" {
			kind += ": " + d
		}
		if class != "" {
			kind += " @ " + class
		}
		if cv.c.Variant != "" {
			kind += " [" + cv.c.Variant + "]"
		}
		if cv.label != "" {
			kind += " {value: " + cv.label + "}"
		}
		c := cv.c
		r.Fail(vx.Failure{
			Kind: kind, Witness: c.Witness(), Size: c.Size(), Parents: c.Parents(),
			What: fmt.Sprintf("%s, value %s: %s", c.Witness(), cv.doc, what),
			Detail: map[string]any{"format": c.Format, "variant": c.Variant, "schema": c.Schema.String(), "doc": cv.doc, "expression": cv.expr,
				"input": c.Unit.Files, "veneers": c.Unit.VeneersYAML},
		})
	}

	// ---- stage 1: run the converters -------------------------------------------------------
	var convs []*conv
	defaults := map[string]any{} // unit id -> default object of the root builder
	defaultErr := map[string]string{} // unit id -> error of Build() on the untouched root builder
	judged := 0
	for _, c := range prep.Cases {
		switch {
		case c.Dup:
			eng.Bump("variant-yields-duplicate-option-names (not judged)")
			continue
		case c.Noop:
			eng.Bump("variant-leaves-builders-unchanged")
			continue
		case c.Result.Status != "ok":
			note("generation-"+c.Result.Status+": "+normDiag(c.Result.Err), c.Witness()+": "+c.Result.Err)
			continue
		case len(c.CompileErrs) > 0:
			eng.Bump("blocked_by=C02")
			note("blocked_by=C02: "+normDiag(c.CompileErrs[0]), c.Witness()+": "+c.CompileErrs[0])
			// A converter that does not compile returns no text at all: compile
			// errors located in the generated converter files - when nothing
			// else of the unit fails to compile - are C14's own business
			// (everything else stays a precondition owned by C02).
			onlyConverter := true
			for _, e := range c.CompileErrs {
				if !strings.Contains(e, "_converter_gen.go") && !strings.Contains(e, "too many errors") {
					onlyConverter = false
				}
			}
			for _, e := range c.CompileErrs {
				if onlyConverter && strings.Contains(e, "_converter_gen.go") {
					fail(&conv{c: c, doc: "-"}, "generated converter does not compile", e, "", "the generated converter function does not compile: "+e)
					outcomes["converter-does-not-compile"] = true
					break
				}
			}
			continue
		case !c.InDriver || c.Go == nil || c.Go.Err != "":
			eng.Bump("no package / builder IR")
			continue
		}
		if c.Fallback {
			eng.Bump("blocked_by=C02")
			note("blocked_by=C02 with {json,validate}, judged on the output with the strict unmarshaller added: "+normDiag(c.BlockedWith[0]), c.Witness())
		}
		u := eng.Unit(c, "go")
		rootB, ok := c.Go.Builder("Root")
		if !ok {
			note("no builder for the root object", c.Witness())
			continue
		}
		if bldrun.FindFunc(c.API, bldrun.GoName(rootB.Name)+"Converter") == "" {
			cv := &conv{c: c, u: u, doc: "-"}
			fail(cv, "no converter generated for a builder", "", "", "converters are enabled and the root object has a builder, but no "+rootB.Name+"Converter function is generated")
			continue
		}
		judged++
		d := u.Run(rootB, []any{})
		trans++
		def := d.Built
		if d.Err != "" || !d.HasJSON {
			def = u.DefaultOf("Root")
			defaultErr[c.Unit.ID] = d.Err
		}
		defaults[c.Unit.ID] = def
		vals := c.Validators
		n := 0
		for _, dd := range bldrun.DocsFor(c) {
			doc := dd.Text
			if n >= maxDocs {
				break
			}
			if acc, agree := gschema.Accepted(vals, doc); !acc || !agree {
				continue
			}
			n++
			cv := &conv{c: c, u: u, k: n, doc: doc, label: dd.Label}
			resp, died := prep.Driver.Do(map[string]any{"op": "conv", "key": c.Unit.ID + ".Root", "type": c.Unit.ID + ".Root", "doc": doc})
			trans++
			switch {
			case died:
				fail(cv, "converter kills the process", "", "", "the generated converter crashes the process")
				continue
			case resp["hook_panic"] != nil:
				fail(cv, "converter panics", fmt.Sprint(resp["hook_panic"]), "", "the generated converter panics: "+fmt.Sprint(resp["hook_panic"]))
				outcomes["converter-panics"] = true
				continue
			case resp["problem"] != nil:
				note("skipped: "+normDiag(fmt.Sprint(resp["problem"])), c.Witness()+" "+doc+": "+fmt.Sprint(resp["problem"]))
				continue
			}
			cv.expr, _ = resp["expr"].(string)
			in, _ := resp["input_json"].(string)
			cv.input, _ = bldrun.Parse(in)
			convs = append(convs, cv)
		}
	}
	prep.Driver.Close()
	lap("stage1")

	// ---- stage 2: compile the expressions ----------------------------------------------------
	byUnit := map[string][]*conv{}
	var unitOrder []string
	for _, cv := range convs {
		chs, rootErr := chains(cv.expr)
		if chs == nil && rootErr != "" {
			cv.parseErr = rootErr
			fail(cv, "expression does not parse", rootErr, "", "go/parser rejects the returned text "+fmt.Sprintf("%q", cv.expr)+": "+rootErr)
			outcomes["does-not-parse"] = true
			continue
		}
		if rootErr != "" {
			fail(cv, "expression is not a builder call chain", rootErr, "", fmt.Sprintf("%q: %s", cv.expr, rootErr))
			outcomes["not-a-chain"] = true
		}
		id := cv.c.Unit.ID
		if _, ok := byUnit[id]; !ok {
			unitOrder = append(unitOrder, id)
		}
		byUnit[id] = append(byUnit[id], cv)
	}
	goDir := filepath.Join(ws.Dir, "out/go")
	write := func(rel, src string) {
		os.MkdirAll(filepath.Join(goDir, rel), 0o755)
		os.WriteFile(filepath.Join(goDir, rel, "conv.go"), []byte(src), 0o644)
	}
	for _, id := range unitOrder {
		exprs := map[int]string{}
		for _, cv := range byUnit[id] {
			exprs[cv.k] = cv.expr
			cv.pkg = "verifgen/" + id + "/conv"
		}
		write(id+"/conv", pkgSource(id, exprs))
	}
	lap("written")
	errs := ws.BuildGo()
	lap("build-conv")
	// bisect: units whose package fails get one package per expression
	split := 0
	for _, id := range unitOrder {
		if _, bad := errs["verifgen/"+id+"/conv"]; !bad {
			for _, cv := range byUnit[id] {
				cv.compiled = true
			}
			continue
		}
		os.RemoveAll(filepath.Join(goDir, id, "conv"))
		for _, cv := range byUnit[id] {
			rel := fmt.Sprintf("%s/conv%d", id, cv.k)
			write(rel, pkgSource(id, map[int]string{cv.k: cv.expr}))
			cv.pkg = "verifgen/" + rel
			split++
		}
	}
	if split > 0 {
		errs = ws.BuildGo()
		for _, id := range unitOrder {
			for _, cv := range byUnit[id] {
				if cv.compiled {
					continue
				}
				if d, bad := errs[cv.pkg]; bad {
					cv.diag = d
				} else {
					cv.compiled = true
				}
			}
		}
	}
	if e, ok := errs["verifgen/?"]; ok {
		ws.Close()
		vx.Fatalf("go build reported errors outside any package: %v", e)
	}
	var pkgs []genrun.DriverPkg
	seenPkg := map[string]bool{}
	for _, id := range unitOrder {
		for _, cv := range byUnit[id] {
			if !cv.compiled {
				diag := "?"
				if len(cv.diag) > 0 {
					diag = cv.diag[0]
				}
				fail(cv, "expression does not compile", diag, "", fmt.Sprintf("the returned expression %q does not compile: %s", cv.expr, strings.Join(cv.diag, "; ")))
				outcomes["does-not-compile"] = true
				continue
			}
			if seenPkg[cv.pkg] {
				continue
			}
			seenPkg[cv.pkg] = true
			key := id
			if !strings.HasSuffix(cv.pkg, "/conv") {
				key = fmt.Sprintf("%s/%d", id, cv.k)
			}
			dp := genrun.DriverPkg{Key: key, Import: cv.pkg}
			dp.Extra = fmt.Sprintf("\tregExprs(%q, %s.Exprs)\n", key, dp.Alias())
			pkgs = append(pkgs, dp)
		}
	}
	lap("build-split")
	drv, err := ws.BuildDriver(pkgs, map[string]string{"conv_hooks.go": convHooks})
	lap("driver2")
	if err != nil {
		ws.Close()
		vx.Fatalf("%v", err)
	}
	defer drv.Close()

	// ---- stage 3: run and compare ------------------------------------------------------------
	for _, id := range unitOrder {
		for _, cv := range byUnit[id] {
			if !cv.compiled {
				continue
			}
			c, u := cv.c, cv.u
			rootB, _ := c.Go.Builder("Root")
			rootTerm, _ := u.BuilderTerm(rootB)
			resp, died := drv.Do(map[string]any{"op": "runexpr", "unit": id, "k": fmt.Sprint(cv.k)})
			trans++
			switch {
			case died:
				fail(cv, "executing the expression kills the process", "", "", fmt.Sprintf("%q", cv.expr))
				continue
			case resp["hook_panic"] != nil:
				fail(cv, "executing the expression panics", fmt.Sprint(resp["hook_panic"]), "", fmt.Sprintf("%q panics: %v", cv.expr, resp["hook_panic"]))
				outcomes["expression-panics"] = true
				continue
			case resp["problem"] != nil:
				note("skipped: "+fmt.Sprint(resp["problem"]), c.Witness()+" "+cv.doc)
				continue
			}
			if e, ok := resp["err"].(string); ok && e == defaultErr[id] {
				// the untouched builder already fails this way (a default violates a constraint): not the converter's doing
				note("lenient: rebuilt builder fails exactly like the untouched builder", c.Witness()+" "+cv.doc+": "+e)
				continue
			}
			if e, ok := resp["err"].(string); ok {
				fail(cv, "rebuilt builder fails to build", e, "", fmt.Sprintf("%q: Build() returns %q although the value came from a document the schema accepts", cv.expr, e))
				outcomes["rebuilt-build-error"] = true
				continue
			}
			js, _ := resp["json"].(string)
			rebuilt, _ := bldrun.Parse(js)
			def := defaults[id]
			in, _ := cv.input.(map[string]any)
			dm, _ := def.(map[string]any)
			rm, _ := rebuilt.(map[string]any)
			keys := map[string]bool{}
			for k := range in {
				keys[k] = true
			}
			for k := range dm {
				keys[k] = true
			}
			var ks []string
			for k := range keys {
				ks = append(ks, k)
			}
			sort.Strings(ks)
			_, _ = dm, rm
			_ = ks
			ok := true
			var cmp func(path string, v, rb, d any, t gschema.Term, known bool)
			cmp = func(path string, v, rb, d any, t gschema.Term, known bool) {
				if !ok {
					return // one difference per value is enough
				}
				lv := bldrun.Lenient(v)
				if bldrun.IsEmpty(lv) {
					return // no option can unset a member: nothing is demanded for what v does not hold
				}
				if bldrun.Canon(v) == bldrun.Canon(d) {
					return // equals the builder's default
				}
				rt := t
				if known {
					rt = u.Resolve(t)
					if rt.K == "disj" {
						if i := u.PickBranch(rt, v); i >= 0 {
							rt = u.Resolve(rt.Sub[i])
						} else {
							known = false
						}
					}
				}
				sub := func(k string) (gschema.Term, bool) {
					if !known {
						return gschema.Term{}, false
					}
					switch rt.K {
					case "struct":
						for i, f := range rt.Fields {
							if f.Name == k {
								return rt.Sub[i], true
							}
						}
					case "map":
						return rt.Sub[1], true
					case "array":
						return rt.Sub[0], true
					}
					return gschema.Term{}, false
				}
				if vm, isObj := v.(map[string]any); isObj {
					if rb == nil {
						rb = map[string]any{} // a member that is lost entirely is reported at the leaves it should hold
					}
					if rbm, isObj2 := rb.(map[string]any); isObj2 {
						dmm, _ := d.(map[string]any)
						var keys []string
						for k := range vm {
							keys = append(keys, k)
						}
						sort.Strings(keys)
						for _, k := range keys {
							st, sk := sub(k)
							cmp(path+"."+k, vm[k], rbm[k], dmm[k], st, sk)
						}
						return
					}
				}
				if va, isArr := v.([]any); isArr {
					if ra, isArr2 := rb.([]any); isArr2 && len(ra) == len(va) {
						for i := range va {
							st, sk := sub("")
							cmp(path+"[]", va[i], ra[i], nil, st, sk)
						}
						return
					}
				}
				if bldrun.Canon(v) == bldrun.Canon(rb) {
					return
				}
				ok = false
				class := "?"
				if known {
					class = bldrun.TypeClass(u, t, 0)
				}
				what := "expected " + bldrun.ValueClass(lv) + ", found " + bldrun.ValueClass(bldrun.Lenient(rb))
				if _, isArr := v.([]any); isArr {
					if ra, isArr2 := rb.([]any); isArr2 {
						what = "array length differs"
						if len(ra) == len(v.([]any)) {
							what = "array elements differ"
						}
					}
				}
				if cv.label != "" {
					// designed scenario values: the member that differs is part of the failure's identity
					what += " at " + strings.TrimPrefix(path, ".")
				}
				fail(cv, "rebuilt object differs", what, class,
					fmt.Sprintf("at %s: converter input %s, rebuilt %s (default %s); whole input %s, rebuilt %s; expression %q", strings.TrimPrefix(path, "."), bldrun.Text(v), bldrun.Text(rb), bldrun.Text(d), bldrun.Text(cv.input), js, cv.expr))
			}
			cmp("", bldrun.Lenient(in), bldrun.Lenient(rebuilt), bldrun.Lenient(def), rootTerm, true)
			// every option occurs exactly once per chain (append/index options: once per element)
			chs, _ := chains(cv.expr)
			for _, ch := range chs {
				var b ast.Builder
				found := false
				for _, cand := range u.Builders() {
					if "New"+bldrun.GoName(cand.Name)+"Builder" == ch.Ctor {
						b, found = cand, true
					}
				}
				if !found {
					continue
				}
				repeatable := map[string]bool{}
				for _, o := range b.Options {
					for _, a := range o.Assignments {
						if a.Method != ast.DirectAssignment {
							repeatable[bldrun.GoName(o.Name)] = true
						}
					}
				}
				count := map[string]int{}
				for _, m := range ch.Methods {
					count[m]++
				}
				var ms []string
				for m := range count {
					ms = append(ms, m)
				}
				sort.Strings(ms)
				for _, m := range ms {
					if count[m] > 1 && !repeatable[m] {
						ok = false
						fail(cv, "option occurs more than once", "", "", fmt.Sprintf("option %s of %s occurs %d times in %q", m, ch.Ctor, count[m], cv.expr))
					}
				}
			}
			outcomes[fmt.Sprintf("rebuilt-ok=%v", ok)] = true
			if ok {
				eng.Bump("expressions rebuilt equal")
				samples.Add(map[string]any{"case": c.Witness(), "value": cv.doc, "expression": cv.expr, "rebuilt": js})
			}
		}
	}
	drv.Close()
	lap("stage3")

	var cnt []string
	for k, v := range eng.Counts {
		cnt = append(cnt, fmt.Sprintf("%s=%d", k, v))
	}
	sort.Strings(cnt)
	var ns []string
	for k, v := range notes {
		if len(v) > 300 {
			v = v[:300]
		}
		ns = append(ns, k+" — e.g. "+v)
	}
	sort.Strings(ns)
	var oc []string
	for k := range outcomes {
		oc = append(oc, k)
	}
	sort.Strings(oc)
	ws.Close()
	if r.Replay != "" {
		kind, witness, _ := r.ReplayFile()
		hit := false
		for _, f := range r.Frontier() {
			fmt.Println("  ", f.Kind, "@", f.Witness, "\n     ", f.What)
			if f.Kind == kind && f.Witness == witness {
				hit = true
			}
		}
		if hit {
			fmt.Printf("VIOLATION property=C14 replay=%s\n", r.Replay)
			os.Exit(1)
		}
		fmt.Println("replay: the recorded failure does not occur on this tree")
		os.Exit(0)
	}
	if os.Getenv("C14_NOTES") != "" {
		for _, n := range ns {
			fmt.Fprintln(os.Stderr, "NOTE", n)
		}
		for _, n := range cnt {
			fmt.Fprintln(os.Stderr, "COUNT", n)
		}
	}
	r.Finish(map[string]any{
		"states":                        len(convs),
		"transitions":                   trans,
		"traces_validated_against_impl": trans,
		"samples":                       samples.L,
		"exhaustive":                    true,
		"abstract_schemas":              len(prep.Schemas),
		"cases":                         len(prep.Cases),
		"cases_with_converter_judged":   judged,
		"converter_calls":               len(convs),
		"expression_packages_split":     split,
		"cog_Dump_supplied_to_units":    prep.DumpAdded,
		"counts":                        cnt,
		"skip_reasons":                  ns,
		"distinct_outcomes":             oc,
		"explanation": "struct-rooted grammar G (+ extras) × {plain, 6 veneer rules}, Go {json marshaller, validate} + builders + converters generated by the real pipeline; " +
			"cog.Dump, which the converters call but the Go runtime jenny never emits (known C02 finding, every unit would be blocked_by=C02), is supplied from testdata/generated/cog/runtime.go; " +
			"stage 1: the first ≤10 valid documents of each schema are decoded into the generated root type and passed to RootConverter; stage 2: the returned expressions are parsed (go/parser), written one package per unit " +
			"(one per expression for units that do not compile), compiled, executed (.Build()) and the JSON of the rebuilt object is compared member by member with the converter's input wherever that differs from the builder's default object",
	}, []string{
		"only members of the input that differ from the default object of the root builder are demanded to be reproduced (the statement's clause); absent, null and empty collections are not distinguished",
		"an option may repeat in a chain iff it appends to a list or indexes a map (one call per element)",
		"the converter's input is the re-encoding of the decoded document (decode problems are C01's business)",
	})
}

var _ = token.NewFileSet
