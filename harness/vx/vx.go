//go:build verif

// Package vx is the shared runtime of every verification harness: command
// line, failure registry, violation frontier, known findings, replay files and
// evidence files (DESIGN.md §5, §8).
package vx

import (
	"crypto/sha256"
	"encoding/json"
	"flag"
	"fmt"
	"os"
	"path/filepath"
	"runtime/debug"
	"sort"
	"strings"
	"sync"
	"time"
)

// Failure is one failing case reported by a harness.
type Failure struct {
	// Kind is the fine-grained failure kind (oracle clause + normalised diagnostic).
	Kind string `json:"kind"`
	// Witness is the canonical, deterministic identity of the failing case.
	Witness string `json:"witness"`
	// Size orders witnesses (smaller first) when only the smallest per kind is kept.
	Size int `json:"size"`
	// Parents are the witnesses of the one-step reductions of this case (may be empty).
	Parents []string `json:"parents,omitempty"`
	// Detail is free-form material for the replay file.
	Detail any `json:"detail,omitempty"`
	// What is the human-readable one-liner.
	What string `json:"what"`
}

func (f Failure) Key() string { return f.Kind + " @ " + f.Witness }

type Finding struct {
	Property string `json:"property"`
	Key      string `json:"key"`
	What     string `json:"what"`
	Status   string `json:"status"` // open | fixed
	Commit   string `json:"commit,omitempty"`
}

type Run struct {
	Prop     string
	Tier     string
	Seed     int
	Root     string
	Repo     string
	Replay   string
	Propose  bool
	// RecordBaseline: maintenance mode that writes the list of failing cases
	// of the unchanged tree (hashed keys) next to the known findings.
	RecordBaseline bool
	start    time.Time
	mu       sync.Mutex
	failures map[string]Failure // by key
	failKind map[string]map[string]bool
	// PerKindSmallest: report only the smallest witness per kind (for spaces
	// where a reduction relation is not enumerated).
	PerKindSmallest bool
}

func envOr(k, d string) string {
	if v := os.Getenv(k); v != "" {
		return v
	}
	return d
}

// Start parses the common command line.
func Start(prop string) *Run {
	r := &Run{Prop: prop, start: time.Now(), failures: map[string]Failure{}, failKind: map[string]map[string]bool{}}
	tier := flag.String("tier", envOr("VERIF_TIER", "quick"), "quick|thorough")
	replay := flag.String("replay", "", "replay file")
	propose := flag.Bool("propose", false, "print unlisted frontier elements as known-findings JSON instead of failing")
	record := flag.Bool("record-baseline", false, "write baseline_failures/<id>.<tier>.txt (the failing cases of the unchanged tree) — maintenance only, never at check time")
	flag.Parse()
	r.Tier = *tier
	if r.Tier != "thorough" {
		r.Tier = "quick"
	}
	r.Replay = *replay
	r.Propose = *propose
	r.RecordBaseline = *record
	fmt.Sscan(envOr("VERIF_SEED", "0"), &r.Seed)
	r.Root = envOr("VERIF_ROOT", "/verif")
	r.Repo = envOr("VERIF_REPO", "/repo")
	return r
}

func (r *Run) Thorough() bool { return r.Tier == "thorough" }

// Fail registers a failing case. Safe for concurrent use.
func (r *Run) Fail(f Failure) {
	// keys are compared with what known_findings.json holds: they must survive a JSON round trip
	f.Kind = strings.ToValidUTF8(f.Kind, "\uFFFD")
	f.Witness = strings.ToValidUTF8(f.Witness, "\uFFFD")
	r.mu.Lock()
	defer r.mu.Unlock()
	k := f.Key()
	if _, ok := r.failures[k]; ok {
		return
	}
	r.failures[k] = f
	if r.failKind[f.Kind] == nil {
		r.failKind[f.Kind] = map[string]bool{}
	}
	r.failKind[f.Kind][f.Witness] = true
}

// DropIf removes registered failures (used to fold derived failures into their cause).
func (r *Run) DropIf(pred func(Failure) bool) {
	r.mu.Lock()
	defer r.mu.Unlock()
	for k, f := range r.failures {
		if pred(f) {
			delete(r.failures, k)
			delete(r.failKind[f.Kind], f.Witness)
		}
	}
}

func (r *Run) NumFailures() int { r.mu.Lock(); defer r.mu.Unlock(); return len(r.failures) }

// Frontier returns the minimal failing cases: a failure is dropped when one
// of its parents failed with the same kind; with PerKindSmallest only the
// smallest witness of each kind stays.
func (r *Run) Frontier() []Failure {
	r.mu.Lock()
	defer r.mu.Unlock()
	var out []Failure
	for _, f := range r.failures {
		minimal := true
		for _, p := range f.Parents {
			if r.failKind[f.Kind][p] {
				minimal = false
				break
			}
		}
		if minimal {
			out = append(out, f)
		}
	}
	sort.Slice(out, func(i, j int) bool {
		if out[i].Kind != out[j].Kind {
			return out[i].Kind < out[j].Kind
		}
		if out[i].Size != out[j].Size {
			return out[i].Size < out[j].Size
		}
		return out[i].Witness < out[j].Witness
	})
	if r.PerKindSmallest {
		var o2 []Failure
		last := "\x00"
		for _, f := range out {
			if f.Kind != last {
				o2 = append(o2, f)
				last = f.Kind
			}
		}
		out = o2
	}
	return out
}

func keyHash(k string) string {
	h := sha256.Sum256([]byte(k))
	return fmt.Sprintf("%x", h[:6])
}

func (r *Run) baselinePath() string {
	return filepath.Join(r.Root, "baseline_failures", r.Prop+"."+r.Tier+".txt")
}

// loadBaseline returns the hashed keys of the failing cases recorded on the
// unchanged tree for this property and tier (nil if none was recorded).
func (r *Run) loadBaseline() map[string]bool {
	b, err := os.ReadFile(r.baselinePath())
	if err != nil {
		return nil
	}
	out := map[string]bool{}
	for _, l := range strings.Split(string(b), "\n") {
		if l = strings.TrimSpace(l); l != "" && !strings.HasPrefix(l, "#") {
			out[l] = true
		}
	}
	return out
}

// newFailureFrontier returns the minimal failing cases among those that are
// NOT in the recorded baseline: a listed finding accounts for exactly the
// failing cases seen on the unchanged tree, so a new failing case of an
// already-listed kind (which the per-kind / parent reduction would fold into
// the listed witness) is still reported.
func (r *Run) newFailureFrontier(baseline map[string]bool) []Failure {
	r.mu.Lock()
	defer r.mu.Unlock()
	isNew := map[string]bool{}
	for k := range r.failures {
		if !baseline[keyHash(k)] {
			isNew[k] = true
		}
	}
	var out []Failure
	for k, f := range r.failures {
		if !isNew[k] {
			continue
		}
		minimal := true
		for _, p := range f.Parents {
			if isNew[f.Kind+" @ "+p] {
				minimal = false
				break
			}
		}
		if minimal {
			out = append(out, f)
		}
	}
	sort.Slice(out, func(i, j int) bool {
		if out[i].Kind != out[j].Kind {
			return out[i].Kind < out[j].Kind
		}
		if out[i].Size != out[j].Size {
			return out[i].Size < out[j].Size
		}
		return out[i].Witness < out[j].Witness
	})
	if r.PerKindSmallest {
		var o2 []Failure
		last := "\x00"
		for _, f := range out {
			if f.Kind != last {
				o2 = append(o2, f)
				last = f.Kind
			}
		}
		out = o2
	}
	return out
}

func (r *Run) loadFindings() []Finding {
	b, err := os.ReadFile(filepath.Join(r.Root, "known_findings.json"))
	if err != nil {
		return nil
	}
	var doc struct {
		Findings []Finding `json:"findings"`
	}
	if err := json.Unmarshal(b, &doc); err != nil {
		Fatalf("known_findings.json: %v", err)
	}
	var out []Finding
	for _, f := range doc.Findings {
		if f.Property == r.Prop {
			out = append(out, f)
		}
	}
	return out
}

// Fatalf is a harness error: exit 2, never a VIOLATION line.
func Fatalf(format string, a ...any) {
	fmt.Fprintf(os.Stderr, "HARNESS-ERROR: "+format+"\n", a...)
	os.Exit(2)
}

func short(s string, n int) string {
	s = strings.ReplaceAll(s, "\n", " ")
	if len(s) > n {
		return s[:n] + "…"
	}
	return s
}

// Finish computes the frontier, matches it against the known findings,
// writes replay files and the evidence file, prints the verdict lines and
// exits. coverage must already hold the level's keys.
func (r *Run) Finish(coverage map[string]any, assumptions []string) {
	frontier := r.Frontier()
	if dump := os.Getenv("VERIF_DUMP_FAILURES"); dump != "" {
		// debugging aid: every registered failure with the parents that also failed
		var all []map[string]any
		r.mu.Lock()
		for _, f := range r.failures {
			var failingParents []string
			for _, p := range f.Parents {
				if r.failKind[f.Kind][p] {
					failingParents = append(failingParents, p)
				}
			}
			all = append(all, map[string]any{"kind": f.Kind, "witness": f.Witness, "failing_parents": failingParents, "what": f.What})
		}
		r.mu.Unlock()
		sort.Slice(all, func(i, j int) bool { return fmt.Sprint(all[i]["kind"], all[i]["witness"]) < fmt.Sprint(all[j]["kind"], all[j]["witness"]) })
		b, _ := json.MarshalIndent(all, "", " ")
		os.WriteFile(dump, b, 0o644)
	}
	known := r.loadFindings()
	open := map[string]Finding{}
	for _, k := range known {
		if k.Status == "open" {
			open[k.Key] = k
		}
	}
	hit := map[string]bool{}
	var unlisted []Failure
	baseline := r.loadBaseline()
	accounted := 0
	for _, f := range frontier {
		if k, ok := open[f.Key()]; ok {
			hit[f.Key()] = true
			fmt.Printf("KNOWN-FINDING: property=%s %s [%s]\n", r.Prop, k.What, short(f.Key(), 160))
			continue
		}
		if baseline != nil && !r.RecordBaseline && baseline[keyHash(f.Key())] {
			// a failing case the unchanged tree has too. It is minimal in THIS run only
			// because the smaller case that the listed finding names was not evaluated
			// (a run cut short by its internal deadline evaluates a subset): the
			// listed findings account for every case of the baseline set.
			accounted++
			continue
		}
		unlisted = append(unlisted, f)
	}
	// failing cases that the unchanged tree did not have (see newFailureFrontier)
	newCases := 0
	if baseline != nil && !r.RecordBaseline {
		reported := map[string]bool{}
		for _, f := range unlisted {
			reported[f.Key()] = true
		}
		for _, f := range r.newFailureFrontier(baseline) {
			newCases++
			if reported[f.Key()] {
				continue
			}
			if _, ok := open[f.Key()]; ok {
				continue
			}
			f.What = "new failing case of a kind that already has a listed finding (the listed finding does not account for it): " + f.What
			unlisted = append(unlisted, f)
		}
	}
	if r.RecordBaseline {
		r.mu.Lock()
		var hashes []string
		for k := range r.failures {
			hashes = append(hashes, keyHash(k))
		}
		r.mu.Unlock()
		sort.Strings(hashes)
		os.MkdirAll(filepath.Dir(r.baselinePath()), 0o755)
		body := "# failing cases of " + r.Prop + " (" + r.Tier + ") on the unchanged tree: sha256 prefixes of \"<kind> @ <witness>\"; written by --record-baseline only\n" + strings.Join(hashes, "\n") + "\n"
		if err := os.WriteFile(r.baselinePath(), []byte(body), 0o644); err != nil {
			Fatalf("writing baseline: %v", err)
		}
		fmt.Printf("baseline recorded: %d failing cases -> %s\n", len(hashes), r.baselinePath())
	}
	var stale []string
	for k := range open {
		if !hit[k] {
			stale = append(stale, k)
		}
	}
	sort.Strings(stale)
	if r.Propose {
		var props []Finding
		for _, f := range unlisted {
			props = append(props, Finding{Property: r.Prop, Key: f.Key(), What: f.What, Status: "open"})
		}
		b, _ := json.MarshalIndent(props, "", " ")
		fmt.Println(string(b))
	}
	violations := 0
	replayDir := filepath.Join(envOr("VERIF_REPLAY_DIR", filepath.Join(r.Root, "replays")), r.Prop)
	for _, f := range unlisted {
		violations++
		os.MkdirAll(replayDir, 0o755)
		h := sha256.Sum256([]byte(f.Key()))
		p := filepath.Join(replayDir, fmt.Sprintf("%x.json", h[:6]))
		b, _ := json.MarshalIndent(map[string]any{"property": r.Prop, "kind": f.Kind, "witness": f.Witness, "what": f.What, "detail": f.Detail}, "", " ")
		os.WriteFile(p, b, 0o644)
		if !r.Propose {
			fmt.Printf("VIOLATION property=%s replay=%s\n", r.Prop, p)
			fmt.Printf("  what: %s\n  key: %s\n", short(f.What, 300), short(f.Key(), 300))
		}
	}
	if coverage == nil {
		coverage = map[string]any{}
	}
	coverage["frontier_size"] = len(frontier)
	coverage["failing_cases_total"] = r.NumFailures()
	coverage["known_findings_hit"] = len(hit)
	coverage["known_findings_stale"] = stale
	if baseline != nil {
		coverage["baseline_failing_cases_recorded"] = len(baseline)
		coverage["new_failing_cases_minimal"] = newCases
		coverage["frontier_cases_accounted_by_baseline"] = accounted
	}
	ev := map[string]any{
		"property_id": r.Prop,
		"tier":        r.Tier,
		"seed":        r.Seed,
		"level":       "model_checking",
		"coverage":    coverage,
		"assumptions": assumptions,
		"wall_s":      time.Since(r.start).Seconds(),
		"violations":  violations,
	}
	if r.Replay == "" {
		evDir := envOr("VERIF_EVIDENCE_DIR", filepath.Join(r.Root, "evidence"))
		os.MkdirAll(evDir, 0o755)
		b, _ := json.MarshalIndent(ev, "", " ")
		if err := os.WriteFile(filepath.Join(evDir, r.Prop+".json"), b, 0o644); err != nil {
			Fatalf("writing evidence: %v", err)
		}
	}
	fmt.Printf("%s tier=%s states=%v transitions=%v frontier=%d known=%d unlisted=%d wall=%.1fs\n", r.Prop, r.Tier, coverage["states"], coverage["transitions"], len(frontier), len(hit), len(unlisted), time.Since(r.start).Seconds())
	if violations > 0 && !r.Propose {
		os.Exit(1)
	}
	os.Exit(0)
}

// ReplayFile loads a replay artefact.
func (r *Run) ReplayFile() (kind, witness string, detail json.RawMessage) {
	b, err := os.ReadFile(r.Replay)
	if err != nil {
		Fatalf("replay: %v", err)
	}
	var doc struct {
		Kind    string          `json:"kind"`
		Witness string          `json:"witness"`
		Detail  json.RawMessage `json:"detail"`
	}
	if err := json.Unmarshal(b, &doc); err != nil {
		Fatalf("replay: %v", err)
	}
	return doc.Kind, doc.Witness, doc.Detail
}

// Samples keeps the first n distinct samples offered.
type Samples struct {
	mu sync.Mutex
	N  int
	L  []any
}

func (s *Samples) Add(v any) {
	s.mu.Lock()
	defer s.mu.Unlock()
	if len(s.L) < s.N {
		s.L = append(s.L, v)
	}
}

// Catch runs f and returns the recovered panic (nil if none).
func Catch(f func()) (p any) {
	defer func() {
		if r := recover(); r != nil {
			p = r
		}
	}()
	f()
	return nil
}

// JSON renders v canonically (encoding/json sorts map keys).
func JSON(v any) string {
	b, err := json.Marshal(v)
	if err != nil {
		return "!json:" + err.Error()
	}
	return string(b)
}

// PanicInfo describes a recovered panic.
type PanicInfo struct {
	Value string
	// Site is the innermost grafana/cog function on the panicking stack.
	Site  string
	Stack string
}

// CatchStack runs f and returns a description of the recovered panic (nil if none).
func CatchStack(f func()) (p *PanicInfo) {
	defer func() {
		if r := recover(); r != nil {
			st := string(debug.Stack())
			p = &PanicInfo{Value: fmt.Sprint(r), Stack: st, Site: cogSite(st)}
		}
	}()
	f()
	return nil
}

func cogSite(stack string) string {
	lines := strings.Split(stack, "\n")
	seenPanic := false
	for _, l := range lines {
		if strings.HasPrefix(l, "panic(") {
			seenPanic = true
			continue
		}
		if !seenPanic || strings.HasPrefix(l, "\t") {
			continue
		}
		if strings.Contains(l, "github.com/grafana/cog/") && !strings.Contains(l, "/verifx/") {
			if i := strings.LastIndex(l, "("); i > 0 {
				l = l[:i]
			}
			return strings.TrimPrefix(l, "github.com/grafana/cog/")
		}
	}
	return "?"
}
