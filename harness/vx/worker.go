//go:build verif

package vx

import (
	"bufio"
	"os"
	"os/exec"
	"time"
)

// Worker is a child process (normally os.Args[0] in a worker mode) speaking a
// one-JSON-line-per-request protocol on stdin/stdout. A request during which
// the child dies (fatal error: stack overflow, out of memory, os.Exit) is
// reported as died=true and the child is restarted for the next request, so a
// crash of the code under test is attributed to the single case that caused it.
type Worker struct {
	// Bin is the program to run (default: this program, os.Args[0]).
	Bin    string
	Args   []string
	Env    []string
	cmd    *exec.Cmd
	in     *bufio.Writer
	out    *bufio.Scanner
	Deaths int
	// Timeout (default 120 s) bounds one request; the code under test answers
	// in milliseconds, so hitting it means a hang (counted as died, Hung=true).
	Timeout time.Duration
	Hung    bool
}

func (w *Worker) start() {
	bin := w.Bin
	if bin == "" {
		bin = os.Args[0]
	}
	w.cmd = exec.Command(bin, w.Args...)
	w.cmd.Stderr = nil // fatal error traces of the child are not interesting beyond "it died"
	w.cmd.Env = append(os.Environ(), w.Env...)
	stdin, _ := w.cmd.StdinPipe()
	stdout, _ := w.cmd.StdoutPipe()
	if err := w.cmd.Start(); err != nil {
		Fatalf("starting worker: %v", err)
	}
	w.in = bufio.NewWriter(stdin)
	w.out = bufio.NewScanner(stdout)
	w.out.Buffer(make([]byte, 1<<20), 1<<28)
}

// Do sends one request line and returns the response line.
func (w *Worker) Do(req []byte) (resp []byte, died bool) {
	if w.cmd == nil {
		w.start()
	}
	w.in.Write(req)
	w.in.WriteByte('\n')
	w.in.Flush()
	w.Hung = false
	to := w.Timeout
	if to == 0 {
		to = 120 * time.Second
	}
	okc := make(chan bool, 1)
	go func() { okc <- w.out.Scan() }()
	ok := false
	select {
	case ok = <-okc:
	case <-time.After(to):
		w.Hung = true
		w.cmd.Process.Kill()
		<-okc
	}
	if !ok {
		w.cmd.Process.Kill()
		w.cmd.Wait()
		w.cmd = nil
		w.Deaths++
		return nil, true
	}
	return append([]byte(nil), w.out.Bytes()...), false
}

func (w *Worker) Close() {
	if w.cmd != nil {
		w.cmd.Process.Kill()
		w.cmd.Wait()
		w.cmd = nil
	}
}

// ServeWorker is the child side: handle is called for every request line.
func ServeWorker(handle func(req []byte) []byte) {
	in := bufio.NewScanner(os.Stdin)
	in.Buffer(make([]byte, 1<<20), 1<<28)
	out := bufio.NewWriter(os.Stdout)
	for in.Scan() {
		out.Write(handle(in.Bytes()))
		out.WriteByte('\n')
		out.Flush()
	}
}
