//go:build verif

// C09: a builder option sets exactly its target; invalid input is reported,
// valid input never fails. DESIGN.md §6 C09.
//
// Space: struct-rooted schemas of grammar G (+ bldrun.ExtraSchemas) × builder
// variants (plain + one veneer rule) × every builder of the unit × every
// option × the complete value alphabet of every argument (the other arguments
// hold their first valid value) × all ordered pairs (triples in thorough) of
// (option, first valid value). Everything is executed on the generated Go and
// Python builders; the builder IR (options, arguments, assignments) is taken
// from the real pipeline.
package main

import (
	"fmt"
	"os"
	"regexp"
	"runtime"
	"sort"
	"strings"
	"sync"

	"github.com/grafana/cog/internal/ast"
	"github.com/grafana/cog/verifx/bldrun"
	"github.com/grafana/cog/verifx/genrun"
	"github.com/grafana/cog/verifx/vx"
)

var (
	reQuoted = regexp.MustCompile(`"[^"]*"|'[^']*'`)
	reDigits = regexp.MustCompile(`[0-9]+`)
	reIDs    = regexp.MustCompile(`s[0-9]{4}[joc][0-9a-z]t?x?`)
)

func normDiag(s string) string {
	s = reIDs.ReplaceAllString(s, "<id>")
	s = reQuoted.ReplaceAllString(s, `"…"`)
	s = reDigits.ReplaceAllString(s, "N")
	s = strings.Join(strings.Fields(s), " ")
	if len(s) > 140 {
		s = s[:140]
	}
	return s
}

// call is one option invocation with concrete argument values.
type call struct {
	Opt     ast.Option
	Args    map[string]any // by argument name
	Spec    map[string]any // {"m", "args"}
	Effects []bldrun.Effect
	Class   string // valid | violating
	Nested  bool   // a nested builder carries (part of) the arguments
	Target  string // class of the varied argument's target
	Text    string // human-readable
}

type judge struct {
	r       *vx.Run
	e       *bldrun.Engine
	samples *vx.Samples
	mu      sync.Mutex
	notes   map[string]string // first example per skip reason
	trans   int
	outcomes map[string]bool
	optionsSeen, valuesSeen, pairs, triples int
}

func (j *judge) note(reason, example string) {
	j.e.Bump(reason)
	j.mu.Lock()
	if old, ok := j.notes[reason]; !ok || example < old {
		j.notes[reason] = example
	}
	j.mu.Unlock()
}

func (j *judge) outcome(k string) { j.mu.Lock(); j.outcomes[k] = true; j.mu.Unlock() }

func (j *judge) fail(u *bldrun.LUnit, b ast.Builder, clause, diag, target, what string, calls []call) {
	kind := u.Lang + ": " + clause
	if d := normDiag(diag); d != "" {
		kind += ": " + d
	}
	if target != "" {
		kind += " @ " + target
	}
	var seq []any
	var texts []string
	for _, c := range calls {
		seq = append(seq, c.Spec)
		texts = append(texts, c.Text)
	}
	c := u.C
	j.r.Fail(vx.Failure{
		Kind:    kind,
		Witness: c.Witness(),
		Size:    c.Size(),
		Parents: c.Parents(),
		What:    fmt.Sprintf("%s builder %s of %s: %s: %s", u.Lang, b.Name, c.Witness(), strings.Join(texts, " . "), what),
		Detail: map[string]any{"format": c.Format, "variant": c.Variant, "twin": c.Twin, "schema": c.Schema.String(), "language": u.Lang,
			"builder": b.Name, "sequence": seq, "calls": texts, "input": c.Unit.Files, "veneers": c.Unit.VeneersYAML},
	})
}

func reported(u *bldrun.LUnit, o bldrun.Outcome) bool {
	if o.Err == "" {
		return false
	}
	if u.Lang == "go" {
		return o.Stage == "build"
	}
	return o.Stage == "option" || o.Stage == "nested" || o.Stage == "constructor"
}

// check judges the outcome of a call sequence whose calls are all valid or whose last call is violating.
func (j *judge) check(u *bldrun.LUnit, b ast.Builder, def any, calls []call, clausePrefix string) bool {
	var specs []any
	var effects []bldrun.Effect
	for _, c := range calls {
		specs = append(specs, c.Spec)
		effects = append(effects, c.Effects...)
	}
	last := calls[len(calls)-1]
	out := u.Run(b, specs)
	j.mu.Lock()
	j.trans++
	j.mu.Unlock()
	target := last.Target
	if u.C.Tag() != "" {
		target += " [" + u.C.Tag() + "]"
	}
	switch {
	case out.Died:
		j.fail(u, b, clausePrefix+"generated code kills the process", "", target, "the generated code crashes the process (fatal error or hang)", calls)
		return false
	case out.Panic != "":
		j.fail(u, b, clausePrefix+"option or Build panics", out.Panic, target, "panic: "+out.Panic, calls)
		return false
	case out.Problem != "":
		j.note("skipped: "+normDiag(out.Problem), u.C.Witness()+" "+last.Text+": "+out.Problem)
		return false
	}
	rep := reported(u, out)
	if last.Class == "violating" {
		j.outcome(u.Lang + "/violating/" + fmt.Sprint(rep))
		if !rep {
			clause := "constraint-violating argument is not reported"
			if last.Nested {
				clause = "failing nested builder is not reported"
			}
			how := "Build() returns no error"
			if u.Lang == "python" {
				how = "the option call does not raise"
				if out.Err != "" {
					how = "only " + out.Stage + " raises: " + out.Err
				}
			}
			j.fail(u, b, clausePrefix+clause, "", target, how+"; built "+bldrun.Text(out.Built), calls)
			return false
		}
		return true
	}
	expected := u.Apply(def, effects)
	if bt, _ := u.BuilderTerm(b); bt.K == "disj" {
		// the struct a pass generates for a union encodes as the branch that is set
		expected = effects[len(effects)-1].Value
	}
	if out.Err != "" {
		// a valid argument must not fail - judged when the object it yields is a valid value of the built type
		if u.Classify(u.SelfTerm(b), expected) != "valid" && u.Classify(u.SelfTerm(b), bldrun.Lenient(expected)) != "valid" {
			j.note("lenient: valid argument fails but the resulting object is not a valid value (other members violate the schema)", u.C.Witness()+" "+last.Text+": "+out.Err)
			return false
		}
		j.outcome(u.Lang + "/valid/fails")
		j.fail(u, b, clausePrefix+"valid argument fails", out.Stage+": "+out.Err, target, fmt.Sprintf("%s fails with %q although every argument satisfies the schema and %s is a valid value", out.Stage, out.Err, bldrun.Text(expected)), calls)
		return false
	}
	ok := true
	if diffs := bldrun.DiffPaths(out.Built, expected); len(diffs) > 0 {
		ok = false
		d := diffs[0]
		onTarget := false
		for _, e := range effects {
			if d.HasPrefix(e.JPath()) || e.JPath().HasPrefix(d) {
				onTarget = true
			}
		}
		got, _ := bldrun.Get(out.Built, d)
		want, _ := bldrun.Get(expected, d)
		if onTarget {
			j.fail(u, b, clausePrefix+"target does not hold the argument", "expected "+bldrun.ValueClass(bldrun.Lenient(want))+", found "+bldrun.ValueClass(bldrun.Lenient(got)), target,
				fmt.Sprintf("at %s the built object holds %s, demanded %s (built %s, default %s)", d, bldrun.Text(got), bldrun.Text(want), bldrun.Text(out.Built), bldrun.Text(def)), calls)
		} else {
			j.fail(u, b, clausePrefix+"option changes a member other than its target", "", target,
				fmt.Sprintf("member %s becomes %s (default object %s, built %s)", d, bldrun.Text(got), bldrun.Text(def), bldrun.Text(out.Built)), calls)
		}
	}
	for _, a := range b.Constructor.Assignments {
		if a.Value.Constant == nil || len(a.Path) == 0 {
			continue
		}
		var p bldrun.JPath
		for _, it := range a.Path {
			p = append(p, it.Identifier)
		}
		overwritten := false
		for _, e := range effects {
			if p.HasPrefix(e.JPath()) || e.JPath().HasPrefix(p) {
				overwritten = true
			}
		}
		if overwritten {
			continue
		}
		got, _ := bldrun.Get(out.Built, p)
		if bldrun.Canon(got) != bldrun.Canon(bldrun.NormConst(a.Value.Constant)) {
			ok = false
			j.fail(u, b, clausePrefix+"constructor constant missing", "", target,
				fmt.Sprintf("member %s holds %s instead of the constant %v (built %s)", p, bldrun.Text(got), a.Value.Constant, bldrun.Text(out.Built)), calls)
		}
	}
	j.outcome(u.Lang + "/valid/" + fmt.Sprint(ok))
	if ok && len(calls) == 1 {
		j.samples.Add(map[string]any{"case": u.C.Witness(), "language": u.Lang, "builder": b.Name, "call": last.Text, "built": bldrun.Text(out.Built)})
	}
	return ok
}

const maxValuesPerArg = 64

func (j *judge) builder(u *bldrun.LUnit, b ast.Builder, thorough bool) {
	if _, ok := u.BuilderTerm(b); !ok {
		j.note("skipped: builder object is not bound to the source schema", u.C.Witness()+" "+b.Name)
		return
	}
	if len(b.Constructor.Args) > 0 {
		j.note("skipped: constructor with arguments", u.C.Witness()+" "+b.Name)
		return
	}
	d := u.Run(b, nil)
	j.mu.Lock()
	j.trans++
	j.mu.Unlock()
	switch {
	case d.Died || d.Panic != "":
		j.fail(u, b, "default builder panics", d.Panic, "", "constructing the builder and calling Build() panics: "+d.Panic, []call{{Text: "(no option)"}})
		return
	case d.Problem != "":
		j.note("skipped: "+normDiag(d.Problem), u.C.Witness()+" "+b.Name+": "+d.Problem)
		return
	}
	def := d.Built
	if d.Err != "" || !d.HasJSON {
		// Build() of the untouched builder fails (a zero value violates a constraint): the freshly constructed object is the reference
		def = u.DefaultOf(b.For.Name)
		j.e.Bump("default-builder-fails-validation")
	}
	var firsts [][]call // per option: up to two valid calls
	for _, opt := range b.Options {
		args, err := u.OptionArgs(b, opt)
		if err != nil {
			j.note("skipped: option not bound to the source schema", u.C.Witness()+" "+b.Name+"."+opt.Name+": "+err.Error())
			continue
		}
		j.mu.Lock()
		j.optionsSeen++
		j.mu.Unlock()
		// Options derived from members (plain builders, struct_fields_as_options / _as_arguments at any
		// depth) name every argument after the member it is assigned to. This is the one expectation
		// that does not come from the builder IR, so that a wrong target in the IR itself is seen.
		if bldrun.NameCheckedVariants[u.C.Variant] {
			for ai, asg := range opt.Assignments {
				if asg.Value.Argument == nil || len(asg.Path) == 0 {
					continue
				}
				last := asg.Path[len(asg.Path)-1]
				if last.Index != nil || last.Identifier == asg.Value.Argument.Name {
					continue
				}
				tc := "?"
				for _, a := range args {
					if a.Name == asg.Value.Argument.Name {
						tc = bldrun.TypeClass(u, a.Term, 0)
					}
				}
				if u.C.Tag() != "" {
					tc += " [" + u.C.Tag() + "]"
				}
				j.fail(u, b, "argument is not assigned to the member it is named after", "", tc,
					fmt.Sprintf("option %s: assignment %d writes argument %s to %s", opt.Name, ai, asg.Value.Argument.Name, asg.Path.String()), []call{{Text: opt.Name + "(…)"}})
			}
		}
		// value alphabets
		alpha := make([][]any, len(args))
		class := make([][]string, len(args))
		base := make([]any, len(args))
		haveBase := true
		for i, a := range args {
			if a.IsKey {
				alpha[i], class[i] = []any{"k", "l"}, []string{"valid", "valid"}
			} else {
				vals := u.C.Schema.Values(a.Term, 2)
				if len(vals) > maxValuesPerArg {
					vals = vals[:maxValuesPerArg]
					j.e.Bump("alphabet-capped")
					j.note("alphabet capped", u.C.Witness()+" "+b.Name+"."+opt.Name+fmt.Sprintf(" (%d values)", len(u.C.Schema.Values(a.Term, 2))))
				}
				for _, v := range vals {
					alpha[i] = append(alpha[i], v)
					class[i] = append(class[i], u.Classify(a.Term, v))
				}
			}
			found := false
			for k, c := range class[i] {
				if c == "valid" {
					// prefer a value that can be passed through the API
					if _, _, err := u.Spec(a.Type, a.Term, alpha[i][k], 0); err == nil {
						base[i], found = alpha[i][k], true
						break
					}
				}
			}
			if !found {
				haveBase = false
			}
		}
		if !haveBase {
			j.note("skipped: an argument has no valid expressible value", u.C.Witness()+" "+b.Name+"."+opt.Name)
			continue
		}
		mk := func(vary int, v any, cls string) (call, bool) {
			c := call{Opt: opt, Args: map[string]any{}, Class: cls}
			var specs []any
			var texts []string
			for i, a := range args {
				val := base[i]
				if i == vary {
					val = v
				}
				c.Args[a.Name] = val
				s, nested, err := u.Spec(a.Type, a.Term, val, 0)
				if err != nil {
					j.note("skipped: value not expressible through the builder API", u.C.Witness()+" "+b.Name+"."+opt.Name+"("+bldrun.Text(val)+"): "+err.Error())
					return c, false
				}
				if nested && (i == vary || vary < 0) {
					c.Nested = true
				}
				specs = append(specs, s)
				texts = append(texts, bldrun.Text(val))
			}
			if specs == nil {
				specs = []any{}
			}
			c.Spec = map[string]any{"m": u.MethodName(opt), "args": specs}
			eff, err := u.Effects(opt, c.Args)
			if err != nil {
				j.note("skipped: effect not computable", u.C.Witness()+" "+b.Name+"."+opt.Name+": "+err.Error())
				return c, false
			}
			c.Effects = eff
			c.Text = opt.Name + "(" + strings.Join(texts, ", ") + ")"
			tv := 0
			if vary >= 0 {
				tv = vary
			}
			if len(args) > 0 {
				c.Target = bldrun.TypeClass(u, args[tv].Term, 0)
			} else {
				c.Target = "constant assignment"
			}
			for _, a := range opt.Assignments {
				if a.Method != ast.DirectAssignment {
					c.Target += " via " + string(a.Method)
					break
				}
			}
			return c, true
		}
		var valid []call
		if len(args) == 0 {
			if c, ok := mk(-1, nil, "valid"); ok {
				if j.check(u, b, def, []call{c}, "") {
					valid = append(valid, c)
				}
			}
		}
		seen := map[string]bool{}
		for i := range args {
			for k, v := range alpha[i] {
				cls := class[i][k]
				if cls != "valid" && cls != "violating" {
					j.e.Bump("values-" + cls + "-skipped")
					continue
				}
				c, ok := mk(i, v, cls)
				if !ok || seen[c.Text] {
					continue
				}
				seen[c.Text] = true
				j.mu.Lock()
				j.valuesSeen++
				j.mu.Unlock()
				j.e.Bump(u.Lang + "-calls-" + cls)
				if c.Nested {
					j.e.Bump(u.Lang + "-calls-" + cls + "-with-nested-builder")
				}
				if j.check(u, b, def, []call{c}, "") && cls == "valid" && len(valid) < 2 {
					valid = append(valid, c)
				}
			}
		}
		if len(valid) > 0 {
			firsts = append(firsts, valid)
		}
	}
	if bt, _ := u.BuilderTerm(b); bt.K == "disj" {
		// setting two branches of a union is outside the property (no defined encoding)
		return
	}
	// all ordered pairs of (option, first valid value); (o, o) uses the first then the second valid value
	for x := range firsts {
		for y := range firsts {
			c1, c2 := firsts[x][0], firsts[y][0]
			if x == y && len(firsts[x]) > 1 {
				c2 = firsts[x][1]
			}
			j.mu.Lock()
			j.pairs++
			j.mu.Unlock()
			j.check(u, b, def, []call{c1, c2}, "sequence: ")
		}
	}
	if thorough && len(firsts) <= 3 && len(firsts) > 1 {
		for x := range firsts {
			for y := range firsts {
				for z := range firsts {
					j.mu.Lock()
					j.triples++
					j.mu.Unlock()
					c3 := firsts[z][0]
					if (z == x || z == y) && len(firsts[z]) > 1 {
						c3 = firsts[z][1]
					}
					j.check(u, b, def, []call{firsts[x][0], firsts[y][0], c3}, "sequence: ")
				}
			}
		}
	}
}

func main() {
	r := vx.Start("C09")
	genrun.MaybeServe()
	r.PerKindSmallest = true
	opts := bldrun.Opts{Name: "c09", Thorough: r.Thorough(), Python: true, Twins: true}
	if r.Replay != "" {
		_, witness, _ := r.ReplayFile()
		opts.Only = witness
		opts.Thorough = true
		fmt.Println("replaying", witness)
	}
	ws := genrun.NewWorkspace("c09")
	defer ws.Close()
	prep, err := bldrun.Prepare(ws, opts)
	if err != nil {
		ws.Close()
		vx.Fatalf("%v", err)
	}
	defer prep.Driver.Close()
	if r.Replay != "" && len(prep.Cases) == 0 {
		ws.Close()
		vx.Fatalf("replay: case %q is not in the space", opts.Only)
	}
	py := bldrun.StartPython(ws)
	defer py.Close()
	eng := bldrun.NewEngine(prep, py)
	j := &judge{r: r, e: eng, samples: &vx.Samples{N: 10}, notes: map[string]string{}, outcomes: map[string]bool{}}

	sem := make(chan struct{}, runtime.NumCPU())
	var wg sync.WaitGroup
	judged := 0
	for _, c := range prep.Cases {
		switch {
		case c.Dup:
			eng.Bump("variant-yields-duplicate-option-names (not judged)")
			continue
		case c.Noop:
			eng.Bump("variant-leaves-builders-unchanged")
			continue
		case c.Result.Status != "ok":
			eng.Bump("generation-" + c.Result.Status)
			j.note("generation-"+c.Result.Status+": "+normDiag(c.Result.Err), c.Witness()+": "+c.Result.Err)
			continue
		}
		judged++
		wg.Add(1)
		sem <- struct{}{}
		go func(c *bldrun.Case) {
			defer wg.Done()
			defer func() { <-sem }()
			// Go half
			switch {
			case len(c.CompileErrs) > 0:
				eng.Bump("go: blocked_by=C02")
				eng.Bump("go: blocked_by=C02 (also with the strict unmarshaller)")
				j.note("go: blocked_by=C02: "+normDiag(c.CompileErrs[0]), c.Witness()+": "+c.CompileErrs[0])
			case !c.InDriver:
				eng.Bump("go: no package generated")
			case c.Go == nil || c.Go.Err != "":
				eng.Bump("go: builder IR not loadable")
			default:
				eng.Bump("go: cases judged")
				if c.Fallback {
					eng.Bump("go: blocked_by=C02")
					eng.Bump("go: blocked_by=C02 with {json,validate}, judged on the output with the strict unmarshaller added")
					j.note("go: blocked_by=C02 (judged on fallback flags): "+normDiag(c.BlockedWith[0]), c.Witness()+": "+c.BlockedWith[0])
				}
				u := eng.Unit(c, "go")
				for _, b := range u.Builders() {
					j.builder(u, b, r.Thorough())
				}
			}
			// Python half
			switch {
			case c.Py == nil || c.Py.Err != "":
				eng.Bump("python: builder IR not loadable")
			default:
				u := eng.Unit(c, "python")
				if resp, died := py.Do(map[string]any{"op": "default", "unit": c.Unit.ID, "pkg": c.PkgName(), "class": "Root"}); died || resp["import_error"] != nil {
					eng.Bump("python: blocked_by=C02")
					j.note("python: blocked_by=C02 (module does not import)", c.Witness()+": "+fmt.Sprint(resp["import_error"]))
					return
				}
				eng.Bump("python: cases judged")
				for _, b := range u.Builders() {
					j.builder(u, b, r.Thorough())
				}
			}
		}(c)
	}
	wg.Wait()

	var cnt []string
	for k, v := range eng.Counts {
		cnt = append(cnt, fmt.Sprintf("%s=%d", k, v))
	}
	sort.Strings(cnt)
	var notes []string
	for k, v := range j.notes {
		if len(v) > 300 {
			v = v[:300]
		}
		notes = append(notes, k+" — e.g. "+v)
	}
	sort.Strings(notes)
	var outcomes []string
	for k := range j.outcomes {
		outcomes = append(outcomes, k)
	}
	sort.Strings(outcomes)
	var skipped []string
	for f, n := range prep.Skipped {
		skipped = append(skipped, fmt.Sprintf("%s=%d", f, n))
	}
	sort.Strings(skipped)
	py.Close()
	prep.Driver.Close()
	ws.Close()
	if r.Replay != "" {
		kind, witness, _ := r.ReplayFile()
		hit := false
		for _, f := range r.Frontier() {
			fmt.Println("  ", f.Kind, "@", f.Witness, "\n     ", f.What)
			if f.Kind == kind && f.Witness == witness {
				hit = true
			}
		}
		if hit {
			fmt.Printf("VIOLATION property=C09 replay=%s\n", r.Replay)
			os.Exit(1)
		}
		fmt.Println("replay: the recorded failure does not occur on this tree")
		os.Exit(0)
	}
	if os.Getenv("C09_NOTES") != "" {
		for _, n := range notes {
			fmt.Fprintln(os.Stderr, "NOTE", n)
		}
		for _, n := range cnt {
			fmt.Fprintln(os.Stderr, "COUNT", n)
		}
	}
	r.Finish(map[string]any{
		"states":                        judged,
		"transitions":                   j.trans,
		"traces_validated_against_impl": j.trans,
		"samples":                       j.samples.L,
		"exhaustive":                    eng.Counts["alphabet-capped"] == 0,
		"alphabet_cap":                  fmt.Sprintf("%d values per argument; hit %d times", maxValuesPerArg, eng.Counts["alphabet-capped"]),
		"abstract_schemas":              len(prep.Schemas),
		"cases":                         len(prep.Cases),
		"options_exercised":             j.optionsSeen,
		"option_value_calls":            j.valuesSeen,
		"ordered_pairs":                 j.pairs,
		"ordered_triples":               j.triples,
		"counts":                        cnt,
		"skip_reasons":                  notes,
		"formats_skipped":               skipped,
		"distinct_outcomes":             outcomes,
		"explanation": "struct-rooted grammar G (+ nullable/nested collection extras) × {plain, 6 veneer rules} generated by the real pipeline (Go json+validate, Python, builders); builder IR from PipelineFromFile→LoadSchemas→ContextForLanguage; " +
			"every option of every builder × the complete value alphabet of each argument (others at their first valid value; nested builders are built from the value through the nested builder's own options) × all ordered pairs of (option, first valid value) (+ triples in thorough for ≤3 options); " +
			"each run executes the generated builder (Go: reflective driver; Python: one interpreter) and compares the JSON of the built object with default ⊕ documented assignments",
	}, []string{
		"validity of an argument is decided by the reference validators on the sub-schema of its target; 'violating' = rejected, but accepted once all constraints are dropped; ill-typed values (wrong JSON type, enum non-members, null for non-nullable) are outside a typed API and skipped",
		"absent members, null and empty collections are not distinguished; date-times compare as instants; numbers exactly",
		"a valid argument that fails is a failure only when default ⊕ assignment is itself a valid value of the built type (other members may violate constraints by default)",
		"intermediate objects created by nil-guards are expected to equal their own default constructor",
		"units whose generated code does not compile/import are blocked_by=C02; generation errors of veneered variants are counted, not failed",
	})
}
