//go:build verif

package main

import (
	"encoding/json"
	"sort"
	"strconv"
	"strings"

	"github.com/grafana/cog/verifx/gschema"
)

// ---- JSON helpers -------------------------------------------------------------------------

func parseJSON(text string) (any, error) {
	dec := json.NewDecoder(strings.NewReader(text))
	dec.UseNumber()
	var v any
	err := dec.Decode(&v)
	return v, err
}

func toJSON(v any) string {
	b, _ := json.Marshal(v)
	return string(b)
}

func canonOf(v any) string {
	c, err := gschema.CanonJSON(toJSON(v))
	if err != nil {
		return toJSON(v)
	}
	return c
}

func nodes(v any) int {
	n := 1
	switch x := v.(type) {
	case map[string]any:
		for _, e := range x {
			n += nodes(e)
		}
	case []any:
		for _, e := range x {
			n += nodes(e)
		}
	}
	return n
}

func sortedKeys(m map[string]any) []string {
	keys := make([]string, 0, len(m))
	for k := range m {
		keys = append(keys, k)
	}
	sort.Strings(keys)
	return keys
}

func isEmptyish(v any) bool {
	switch x := v.(type) {
	case nil:
		return true
	case map[string]any:
		return len(x) == 0
	case []any:
		return len(x) == 0
	}
	return false
}

// normEmpty implements the ONLY lenience of the statement ("up to the
// distinction between an absent/null collection and an empty one"): object
// members whose value is null, [] or {} (after normalising the value itself)
// are removed; array elements that are null, [] or {} become null (positions
// are kept).
func normEmpty(v any) any {
	switch x := v.(type) {
	case map[string]any:
		out := map[string]any{}
		for k, e := range x {
			ne := normEmpty(e)
			if isEmptyish(ne) {
				continue
			}
			out[k] = ne
		}
		return out
	case []any:
		out := make([]any, len(x))
		for i, e := range x {
			ne := normEmpty(e)
			if isEmptyish(ne) {
				ne = nil
			}
			out[i] = ne
		}
		return out
	}
	return v
}

// ---- single-leaf mutations ----------------------------------------------------------------

// site is one mutation site of a document: alternatives are complete
// replacement values for the position, in order of preference (the first one
// that yields a valid, different document is used).
type site struct {
	alts []any
	desc string
}

func resolve(s gschema.Schema, t gschema.Term, budget int) (gschema.Term, int, bool) {
	for t.K == "ref" {
		if budget <= 0 {
			return t, budget, false
		}
		target, ok := s.Lookup(strings.TrimPrefix(t.A, gschema.Pkg+"."))
		if !ok {
			return t, budget, false
		}
		target.Nullable = target.Nullable || t.Nullable
		t = target
		budget--
	}
	return t, budget, true
}

func indexOf(alphabet []any, v any) int {
	c := canonOf(v)
	for i, x := range alphabet {
		if canonOf(x) == c {
			return i
		}
	}
	return -1
}

func rotate(alphabet []any, from int) []any {
	var out []any
	for k := 1; k <= len(alphabet); k++ {
		out = append(out, alphabet[(from+k)%len(alphabet)])
	}
	return out
}

func copyMap(m map[string]any) map[string]any {
	out := make(map[string]any, len(m))
	for k, v := range m {
		out[k] = v
	}
	return out
}

// sites lists every leaf position of v (a value of term t) with the values
// that differ from v at exactly that position: the next values of the leaf's
// alphabet, absent for an optional member, null for a nullable position, one
// more / one less element (and a renamed key) for arrays and maps.
func sites(s gschema.Schema, t gschema.Term, v any, budget int) []site {
	declared := t
	t, budget, ok := resolve(s, t, budget)
	if !ok {
		return nil
	}
	var out []site
	if v == nil {
		var alts []any
		for _, x := range s.Values(declared, budget+1) {
			if x != nil {
				alts = append(alts, x)
			}
		}
		if len(alts) > 0 {
			out = append(out, site{alts: alts, desc: "null -> value"})
		}
		return out
	}
	if t.Nullable {
		out = append(out, site{alts: []any{nil}, desc: "value -> null"})
	}
	leaf := func() {
		alphabet := s.Values(t, budget)
		i := indexOf(alphabet, v)
		if i < 0 {
			i = len(alphabet) - 1
		}
		var alts []any
		for _, x := range rotate(alphabet, i) {
			if x != nil {
				alts = append(alts, x)
			}
		}
		out = append(out, site{alts: alts, desc: "next value of the alphabet"})
	}
	switch t.K {
	case "struct":
		m, isObj := v.(map[string]any)
		if !isObj {
			leaf()
			break
		}
		for i, f := range t.Fields {
			x, present := m[f.Name]
			if !present {
				vals := s.Values(t.Sub[i], budget)
				var alts []any
				for _, nv := range vals {
					c := copyMap(m)
					c[f.Name] = nv
					alts = append(alts, c)
				}
				out = append(out, site{alts: alts, desc: "absent -> present"})
				continue
			}
			if !f.Required {
				c := copyMap(m)
				delete(c, f.Name)
				out = append(out, site{alts: []any{c}, desc: "present -> absent"})
			}
			for _, sub := range sites(s, t.Sub[i], x, budget) {
				var alts []any
				for _, nv := range sub.alts {
					c := copyMap(m)
					c[f.Name] = nv
					alts = append(alts, c)
				}
				out = append(out, site{alts: alts, desc: sub.desc})
			}
		}
	case "array":
		a, isArr := v.([]any)
		if !isArr {
			leaf()
			break
		}
		var more []any
		if len(a) > 0 {
			more = append(more, append(append([]any{}, a...), a[0]))
		}
		for _, e := range s.Values(t.Sub[0], budget) {
			more = append(more, append(append([]any{}, a...), e))
		}
		out = append(out, site{alts: more, desc: "one more element"})
		if len(a) > 0 {
			out = append(out, site{alts: []any{append([]any{}, a[:len(a)-1]...)}, desc: "one element less"})
		}
		for i, e := range a {
			for _, sub := range sites(s, t.Sub[0], e, budget) {
				var alts []any
				for _, nv := range sub.alts {
					c := append([]any{}, a...)
					c[i] = nv
					alts = append(alts, c)
				}
				out = append(out, site{alts: alts, desc: sub.desc})
			}
		}
	case "map":
		m, isObj := v.(map[string]any)
		if !isObj {
			leaf()
			break
		}
		keys := sortedKeys(m)
		var more []any
		if len(keys) > 0 {
			c := copyMap(m)
			c["m"] = m[keys[0]]
			more = append(more, c)
		}
		for _, e := range s.Values(t.Sub[1], budget) {
			c := copyMap(m)
			c["m"] = e
			more = append(more, c)
		}
		out = append(out, site{alts: more, desc: "one more entry"})
		for _, k := range keys {
			c := copyMap(m)
			delete(c, k)
			out = append(out, site{alts: []any{c}, desc: "one entry less"})
			r := copyMap(m)
			delete(r, k)
			r[k+"x"] = m[k]
			out = append(out, site{alts: []any{r}, desc: "key renamed"})
		}
		for _, k := range keys {
			for _, sub := range sites(s, t.Sub[1], m[k], budget) {
				var alts []any
				for _, nv := range sub.alts {
					c := copyMap(m)
					c[k] = nv
					alts = append(alts, c)
				}
				out = append(out, site{alts: alts, desc: sub.desc})
			}
		}
	case "disj":
		// descend into the branch the value belongs to, and switch branch once
		branch := branchOf(s, t, v, budget)
		if branch < 0 {
			leaf()
			break
		}
		out = append(out, sites(s, t.Sub[branch], v, budget)...)
		var other []any
		for i, b := range t.Sub {
			if i != branch {
				other = append(other, s.Values(b, budget)...)
			}
		}
		if len(other) > 0 {
			out = append(out, site{alts: other, desc: "other union branch"})
		}
	default:
		leaf()
	}
	return out
}

// ---- position classes ---------------------------------------------------------------------

func token(t gschema.Term) string {
	s := ""
	switch t.K {
	case "scalar":
		s = t.A
		if t.Constr {
			s += "[c]"
		}
	case "enum", "const":
		a := t.A
		if strings.HasPrefix(a, "disc:") {
			a = "disc"
		}
		s = t.K + "(" + a + ")"
	case "ref":
		s = "ref"
	case "disj":
		var p []string
		for _, b := range t.Sub {
			bt := token(b)
			if b.K == "array" {
				bt = "array(" + token(b.Sub[0]) + ")"
			}
			p = append(p, bt)
		}
		s = "union(" + strings.Join(p, "|") + ")"
		if t.Disc {
			s += "@disc"
		}
	default:
		s = t.K
	}
	if t.Nullable {
		s += "?"
	}
	return s
}

type missing struct{}

func valueClass(v any) string {
	switch x := v.(type) {
	case missing:
		return "absent"
	case nil:
		return "null"
	case map[string]any:
		if len(x) == 0 {
			return "empty object"
		}
		return "object"
	case []any:
		if len(x) == 0 {
			return "empty array"
		}
		return "array"
	case string:
		return "string"
	case bool:
		return "bool"
	}
	return "number"
}

func vs(a, b string) string {
	if a > b {
		a, b = b, a
	}
	if a == b {
		return a + " values differ"
	}
	return a + " vs " + b
}

// firstDiff walks two JSON values along the abstract term and describes the
// first position (fields in declaration order, keys sorted) where they differ:
// the chain of term tokens down to the position and the nature of the difference.
func firstDiff(s gschema.Schema, t gschema.Term, a, b any, budget int) (chain []string, what string, found bool) {
	if canonOf(wrapMissing(a)) == canonOf(wrapMissing(b)) {
		_, am := a.(missing)
		_, bm := b.(missing)
		if am == bm {
			return nil, "", false
		}
	}
	chain = append(chain, token(t))
	if t.K == "ref" {
		rt, nb, ok := resolve(s, t, budget)
		if ok {
			rt.Nullable = false
			c, w, f := firstDiff(s, rt, a, b, nb)
			return append(chain, c...), w, f
		}
		return chain, vs(valueClass(a), valueClass(b)), true
	}
	ao, aIsObj := a.(map[string]any)
	bo, bIsObj := b.(map[string]any)
	aa, aIsArr := a.([]any)
	ba, bIsArr := b.([]any)
	switch {
	case aIsObj && bIsObj && t.K == "struct":
		seen := map[string]bool{}
		for i, f := range t.Fields {
			seen[f.Name] = true
			x, xp := ao[f.Name]
			y, yp := bo[f.Name]
			if !xp && !yp {
				continue
			}
			if !xp {
				x = missing{}
			}
			if !yp {
				y = missing{}
			}
			tok := "field"
			if !f.Required {
				tok = "field?"
			}
			if c, w, found := firstDiff(s, t.Sub[i], x, y, budget); found {
				return append(append(chain, tok), c...), w, true
			}
		}
		return chain, "members outside the schema differ", true
	case aIsObj && bIsObj && t.K == "map":
		ka, kb := sortedKeys(ao), sortedKeys(bo)
		if strings.Join(ka, "\x00") != strings.Join(kb, "\x00") {
			if len(ka) != len(kb) {
				return chain, "number of entries differs", true
			}
			return chain, "key sets differ (same size)", true
		}
		for _, k := range ka {
			if c, w, found := firstDiff(s, t.Sub[1], ao[k], bo[k], budget); found {
				return append(chain, c...), w, true
			}
		}
	case aIsArr && bIsArr && t.K == "array":
		if len(aa) != len(ba) {
			return chain, "lengths differ", true
		}
		for i := range aa {
			if c, w, found := firstDiff(s, t.Sub[0], aa[i], ba[i], budget); found {
				return append(chain, c...), w, true
			}
		}
	case t.K == "disj":
		// which branch each side belongs to is part of the class
		return chain, vs(valueClass(a), valueClass(b)), true
	}
	return chain, vs(valueClass(a), valueClass(b)), true
}

func wrapMissing(v any) any {
	if _, ok := v.(missing); ok {
		return "\x00missing"
	}
	return v
}

// posClass names the offending position of a pair of JSON texts.
func posClass(s gschema.Schema, ja, jb string) string {
	a, errA := parseJSON(ja)
	b, errB := parseJSON(jb)
	if errA != nil || errB != nil {
		return "unparsable encoding"
	}
	chain, what, found := firstDiff(s, s.Objs[0].T, a, b, 4)
	if !found {
		return "no difference"
	}
	// The class is the offending position itself: its term token, the
	// reference hop it was reached through (the template treats nullable
	// references to collections specially), and "optional" when the
	// difference is a member being absent. The way down from the root is
	// deliberately not part of the class: the equality template recurses
	// context-free, and one defect would otherwise yield one kind per context.
	last := len(chain) - 1
	out := chain[last]
	k := last - 1
	if k >= 0 && strings.HasPrefix(chain[k], "ref") {
		out = chain[k] + " > " + out
		k--
	}
	if k >= 0 && chain[k] == "field?" && strings.Contains(what, "absent") {
		out = "optional " + out
	}
	return out + " [" + what + "]"
}

// shapeClass is the class used when there is no differing position (one
// document decoded twice, v.Equals(v)): the set of leaf positions of the
// root type, each as [optional] [ref >] token. The containers on the way are
// not part of it (see posClass).
func shapeClass(s gschema.Schema) string {
	set := map[string]bool{}
	var walk func(t gschema.Term, prefix string, budget int)
	walk = func(t gschema.Term, prefix string, budget int) {
		switch t.K {
		case "ref":
			rt, nb, ok := resolve(s, t, budget)
			if !ok || budget <= 0 {
				set[prefix+token(t)] = true
				return
			}
			rt.Nullable = false
			if rt.K == "struct" || rt.K == "array" || rt.K == "map" {
				walk(rt, "", nb)
				return
			}
			walk(rt, prefix+token(t)+" > ", nb)
		case "struct":
			for i, f := range t.Fields {
				p := ""
				if !f.Required {
					p = "optional "
				}
				walk(t.Sub[i], p, budget)
			}
		case "array":
			walk(t.Sub[0], "", budget)
		case "map":
			walk(t.Sub[1], "", budget)
		default:
			set[prefix+token(t)] = true
		}
	}
	walk(s.Objs[0].T, "", 3)
	var l []string
	for k := range set {
		l = append(l, k)
	}
	sort.Strings(l)
	return "leaves {" + strings.Join(l, ", ") + "}"
}

func termClass(s gschema.Schema, t gschema.Term, budget int) string {
	out := token(t)
	switch t.K {
	case "ref":
		if rt, nb, ok := resolve(s, t, budget); ok && budget > 0 {
			rt.Nullable = false
			out += ">" + termClass(s, rt, nb)
		}
	case "struct":
		var p []string
		for i, f := range t.Fields {
			q := "field"
			if !f.Required {
				q = "field?"
			}
			p = append(p, q+":"+termClass(s, t.Sub[i], budget))
		}
		out = "{" + strings.Join(p, ",") + "}"
		if t.Nullable {
			out += "?"
		}
	case "array":
		out += "<" + termClass(s, t.Sub[0], budget) + ">"
	case "map":
		out += "<" + termClass(s, t.Sub[1], budget) + ">"
	}
	return out
}

// branchOf tells which branch of a union a JSON value belongs to: the branch
// whose alphabet contains it, else the first branch of the same JSON kind
// (for struct branches with a discriminator constant: the one whose constant matches).
func branchOf(s gschema.Schema, t gschema.Term, v any, budget int) int {
	for i, b := range t.Sub {
		if indexOf(s.Values(b, budget), v) >= 0 {
			return i
		}
	}
	for i, b := range t.Sub {
		rb, _, ok := resolve(s, b, budget)
		if !ok {
			continue
		}
		switch x := v.(type) {
		case string:
			if rb.K == "scalar" && (rb.A == "string" || rb.A == "datetime") || rb.K == "enum" && rb.A == "str" {
				return i
			}
		case bool:
			if rb.K == "scalar" && rb.A == "bool" {
				return i
			}
		case json.Number:
			if rb.K == "scalar" && rb.A != "string" && rb.A != "bool" && rb.A != "any" && rb.A != "datetime" || rb.K == "enum" && rb.A == "int" {
				return i
			}
		case []any:
			if rb.K == "array" {
				return i
			}
		case map[string]any:
			if rb.K == "map" {
				return i
			}
			if rb.K == "struct" {
				match := true
				for k, f := range rb.Fields {
					if c := rb.Sub[k]; c.K == "const" && strings.HasPrefix(c.A, "disc:") {
						if got, _ := x[f.Name].(string); got != strings.TrimPrefix(c.A, "disc:") {
							match = false
						}
					}
				}
				if match {
					return i
				}
			}
		}
	}
	return -1
}

// atoms flattens a JSON value into "path\x00value" strings of its scalar
// leaves (and empty containers); paths are member names / indices / keys
// joined by "\x01".
func atoms(v any, path []string, out map[string][]string) {
	switch x := v.(type) {
	case map[string]any:
		if len(x) == 0 {
			out[strings.Join(path, "\x01")+"\x00{}"] = append([]string{}, path...)
		}
		for _, k := range sortedKeys(x) {
			atoms(x[k], append(path, k), out)
		}
	case []any:
		if len(x) == 0 {
			out[strings.Join(path, "\x01")+"\x00[]"] = append([]string{}, path...)
		}
		for i, e := range x {
			atoms(e, append(path, strconv.Itoa(i)), out)
		}
	default:
		out[strings.Join(path, "\x01")+"\x00"+canonOf(v)] = append([]string{}, path...)
	}
}

// leafTokenAt is the shapeClass-style name of the position reached by path.
func leafTokenAt(s gschema.Schema, t gschema.Term, path []string, prefix string, budget int) string {
	if t.K == "ref" {
		rt, nb, ok := resolve(s, t, budget)
		if !ok || budget <= 0 {
			return prefix + token(t)
		}
		rt.Nullable = false
		if rt.K == "struct" || rt.K == "array" || rt.K == "map" {
			return leafTokenAt(s, rt, path, "", nb)
		}
		return leafTokenAt(s, rt, path, prefix+token(t)+" > ", nb)
	}
	if len(path) == 0 {
		return prefix + token(t)
	}
	switch t.K {
	case "struct":
		for i, f := range t.Fields {
			if f.Name == path[0] {
				p := ""
				if !f.Required {
					p = "optional "
				}
				return leafTokenAt(s, t.Sub[i], path[1:], p, budget)
			}
		}
	case "array":
		return leafTokenAt(s, t.Sub[0], path[1:], "", budget)
	case "map":
		return leafTokenAt(s, t.Sub[1], path[1:], "", budget)
	}
	return prefix + token(t)
}

// culpritClass localises a failure that has no differing position (two
// decodings of one document): the leaves (path, value) that occur in every
// failing document and in no passing one. Falls back to the whole shape.
func culpritClass(s gschema.Schema, failing, passing []string) string {
	var common map[string][]string
	for _, d := range failing {
		v, err := parseJSON(d)
		if err != nil {
			return shapeClass(s)
		}
		a := map[string][]string{}
		atoms(v, nil, a)
		if common == nil {
			common = a
			continue
		}
		for k := range common {
			if _, ok := a[k]; !ok {
				delete(common, k)
			}
		}
	}
	for _, d := range passing {
		if v, err := parseJSON(d); err == nil {
			a := map[string][]string{}
			atoms(v, nil, a)
			for k := range a {
				delete(common, k)
			}
		}
	}
	if len(common) == 0 {
		// second attempt on positions alone: the paths (array indices and map
		// keys abstracted) present in every failing document and in no passing one
		pathsOf := func(d string) map[string][]string {
			out := map[string][]string{}
			if v, err := parseJSON(d); err == nil {
				a := map[string][]string{}
				atoms(v, nil, a)
				for _, path := range a {
					out[leafTokenAt(s, s.Objs[0].T, path, "", 3)+"\x00"+strings.Join(abstractPath(s, path), "\x01")] = path
				}
			}
			return out
		}
		for i, d := range failing {
			pd := pathsOf(d)
			if i == 0 {
				common = pd
				continue
			}
			for k := range common {
				if _, ok := pd[k]; !ok {
					delete(common, k)
				}
			}
		}
		for _, d := range passing {
			for k := range pathsOf(d) {
				delete(common, k)
			}
		}
	}
	set := map[string]bool{}
	for _, path := range common {
		set[leafTokenAt(s, s.Objs[0].T, path, "", 3)] = true
	}
	if len(set) == 0 {
		return shapeClass(s)
	}
	var l []string
	for k := range set {
		l = append(l, k)
	}
	sort.Strings(l)
	return "leaves {" + strings.Join(l, ", ") + "}"
}

// abstractPath replaces array indices and map keys of a path by "*".
func abstractPath(s gschema.Schema, path []string) []string {
	out := make([]string, 0, len(path))
	t := s.Objs[0].T
	budget := 3
	for _, seg := range path {
		if rt, nb, ok := resolve(s, t, budget); ok {
			t, budget = rt, nb
		}
		switch t.K {
		case "struct":
			out = append(out, seg)
			found := false
			for i, f := range t.Fields {
				if f.Name == seg {
					t, found = t.Sub[i], true
					break
				}
			}
			if !found {
				return append(out, "?")
			}
		case "array":
			out = append(out, "*")
			t = t.Sub[0]
		case "map":
			out = append(out, "*")
			t = t.Sub[1]
		default:
			out = append(out, "*")
		}
	}
	return out
}
