//go:build verif

package main

import (
	"fmt"
	"sort"
	"strings"

	"github.com/grafana/cog/verifx/genrun"
	"github.com/grafana/cog/verifx/gschema"
	"github.com/grafana/cog/verifx/irgen"
)

// Two-package units: ONE pipeline run generating packages p and q that both
// define an object with the SAME NAME but a DIFFERENT definition (named array
// / map with scalar vs struct vs enum elements, structs with different
// fields, enums of different kinds, unions of different branches). The
// statement quantifies over "all schemas"; a run with several packages is one
// of them, and per-run state of the generator keyed by a bare object name
// only shows there. The full matrix oracle is applied to the root type of
// EACH package.

type pairSpec struct {
	P, Q   gschema.Schema
	QFirst bool // order of the two inputs in the pipeline configuration
}

func (ps pairSpec) order() string {
	if ps.QFirst {
		return "q,p"
	}
	return "p,q"
}

// witness of the case "root type of package <judged> in this two-package run".
func (ps pairSpec) witness(format, judged string) string {
	js := ps.P
	if judged == "q" {
		js = ps.Q
	}
	return fmt.Sprintf("%s :: %s || two-package run p=[%s] q=[%s] inputs=%s judged=%s", format, js.String(), ps.P.String(), ps.Q.String(), ps.order(), judged)
}

// homonyms: per object name, the alternative definitions.
func homonyms() (names []string, defs map[string][]gschema.Term) {
	str, i64 := irgen.S("string"), irgen.S("int64")
	discU := gschema.Term{K: "disj", Sub: []gschema.Term{ref("S"), ref("T")}, Disc: true}
	defs = map[string][]gschema.Term{
		"L": {irgen.Array(str), irgen.Array(ref("S")), irgen.Array(ref("E")), irgen.Array(irgen.Array(str))},
		"M": {irgen.Map(i64), irgen.Map(ref("S")), irgen.Map(str)},
		"D": {
			irgen.Struct1("v", true, str),
			irgen.StructN([]irgen.Field{{Name: "v", Required: false}, {Name: "w", Required: true}}, []gschema.Term{i64, str}),
			irgen.Struct1("v", true, irgen.Array(str)),
		},
		"E": {irgen.Enum("str"), irgen.Enum("int")},
		"U": {irgen.Disj(str, irgen.S("bool")), discU},
	}
	for n := range defs {
		names = append(names, n)
	}
	sort.Strings(names)
	return names, defs
}

func pairSpecs(thorough bool) []pairSpec {
	names, defs := homonyms()
	type rootVariant struct {
		req, nullable bool
	}
	variants := []rootVariant{{true, false}, {false, false}}
	if thorough {
		variants = append(variants, rootVariant{false, true}, rootVariant{true, true})
	}
	mk := func(name string, def gschema.Term, v rootVariant) gschema.Schema {
		t := ref(name)
		t.Nullable = v.nullable
		return gschema.WithSupport(gschema.Obj{Name: "Root", T: irgen.Struct1("f", v.req, t)}, gschema.Obj{Name: name, T: def})
	}
	var out []pairSpec
	for _, n := range names {
		for _, v := range variants {
			for i, di := range defs[n] {
				for j, dj := range defs[n] {
					if i == j {
						continue
					}
					out = append(out, pairSpec{P: mk(n, di, v), Q: mk(n, dj, v)})
					if i < j {
						out = append(out, pairSpec{P: mk(n, di, v), Q: mk(n, dj, v), QFirst: true})
					}
				}
			}
		}
	}
	return out
}

func pairSchemas(thorough bool) []gschema.Schema {
	var out []gschema.Schema
	for _, ps := range pairSpecs(thorough) {
		out = append(out, ps.P, ps.Q)
	}
	return out
}

// renderAs renders s in the format as package pkg ("p" or "q").
func renderAs(s gschema.Schema, format, pkg string) (gschema.Rendered, error) {
	r, err := s.Render(format)
	if err != nil || pkg == gschema.Pkg {
		return r, err
	}
	out := gschema.Rendered{Files: map[string]string{}, Main: r.Main}
	switch format {
	case "cue":
		for name, text := range r.Files {
			out.Files[strings.Replace(name, gschema.Pkg+"/", pkg+"/", 1)] = strings.Replace(text, "package "+gschema.Pkg+"\n", "package "+pkg+"\n", 1)
		}
		out.InputYAML = strings.Replace(r.InputYAML, "%DIR%/"+gschema.Pkg+"'", "%DIR%/"+pkg+"'", 1)
	default:
		for name, text := range r.Files {
			out.Files[strings.Replace(name, gschema.Pkg+".json", pkg+".json", 1)] = text
		}
		out.InputYAML = strings.Replace(strings.Replace(r.InputYAML, gschema.Pkg+".json", pkg+".json", 1), "package: "+gschema.Pkg+"}", "package: "+pkg+"}", 1)
	}
	if out.InputYAML == r.InputYAML {
		return r, fmt.Errorf("renderAs: cannot rename the package of a %s input", format)
	}
	return out, nil
}

type pairMeta struct {
	witness string
	parents []string
	size    int
	spec    pairSpec
	judged  string
}

// preparePairs generates every two-package unit (each format that expresses
// both schemas), compiles, and links every compiling package into one driver.
// The returned cases are one per (unit, judged package); Case.Index is the
// index of the judged schema in `index` (schema string -> global index).
func preparePairs(ws *genrun.Workspace, specs []pairSpec, opts genrun.GoOpts, index map[string]int, extraFiles map[string]string) (*genrun.Prepared, map[*genrun.Case]pairMeta, error) {
	p := &genrun.Prepared{WS: ws, Skipped: map[string]int{}}
	meta := map[*genrun.Case]pairMeta{}
	var units []genrun.Unit
	type built struct {
		unit  genrun.Unit
		cases map[string]*genrun.Case // pkg -> case
	}
	var all []built
	for i, ps := range specs {
		for _, f := range gschema.Formats {
			rp, errP := renderAs(ps.P, f, "p")
			rq, errQ := renderAs(ps.Q, f, "q")
			if errP != nil || errQ != nil {
				p.Skipped[f]++
				continue
			}
			files := map[string]string{}
			for k, v := range rp.Files {
				files[k] = v
			}
			for k, v := range rq.Files {
				files[k] = v
			}
			in := rp.InputYAML + "\n  " + rq.InputYAML
			if ps.QFirst {
				in = rq.InputYAML + "\n  " + rp.InputYAML
			}
			o := opts
			u := genrun.Unit{ID: fmt.Sprintf("t%04d%s", i, f[:1]), Files: files, InputYAML: in, Types: true, Go: &o}
			units = append(units, u)
			b := built{unit: u, cases: map[string]*genrun.Case{}}
			for _, pkg := range []string{"p", "q"} {
				js, other := ps.P, ps.Q
				if pkg == "q" {
					js, other = ps.Q, ps.P
				}
				cu := u
				cu.ID = u.ID + pkg // driver registry key of this package
				c := &genrun.Case{Index: index[js.String()], Schema: js, Format: f, Unit: cu}
				b.cases[pkg] = c
				p.Cases = append(p.Cases, c)
				meta[c] = pairMeta{
					witness: ps.witness(f, pkg),
					// not minimal when the judged schema fails alone, in this or an earlier format
					parents: append([]string{f + " :: " + js.String()}, genrun.CaseParents(js, f)...),
					size:    (js.Size()+other.Size())*10 + formatRank(f) + 5,
					spec:    ps,
					judged:  pkg,
				}
			}
			all = append(all, b)
		}
	}
	results := ws.Generate(units)
	errs := ws.BuildGo()
	if e, ok := errs["verifgen/?"]; ok {
		return nil, nil, fmt.Errorf("go build reported errors outside any package: %v", e)
	}
	var pkgs []genrun.DriverPkg
	for _, b := range all {
		res := results[b.unit.ID]
		for _, pkg := range []string{"p", "q"} {
			c := b.cases[pkg]
			c.Result = res
			if res.Status != "ok" {
				continue
			}
			imp := "verifgen/" + b.unit.ID + "/" + pkg
			if e, bad := errs[imp]; bad {
				c.CompileErrs = append(c.CompileErrs, e...)
				sort.Strings(c.CompileErrs)
				continue
			}
			has := false
			for _, d := range ws.GoPkgDirs(res) {
				if d == b.unit.ID+"/"+pkg {
					has = true
				}
			}
			if !has {
				continue
			}
			api, err := ws.ParseGoAPI(b.unit.ID + "/" + pkg)
			if err != nil {
				continue
			}
			c.API = api
			c.InDriver = true
			pkgs = append(pkgs, genrun.DriverPkg{Key: c.Unit.ID, Import: imp, API: api})
		}
	}
	d, err := ws.BuildDriver(pkgs, extraFiles)
	if err != nil {
		return nil, nil, err
	}
	p.Driver = d
	return p, meta, nil
}
