//go:build verif

package main

// hookSrc is an extra file of the generated-code driver (package main of the
// driver, see genrun/driver_src.go): op "eqmatrix" decodes a list of documents
// into the registered type with encoding/json (twice each, so that "the same
// value" and "two decodings of the same document" can both be judged), encodes
// every decoded value with json.Marshal and evaluates the REAL generated
// Equals on every ordered pair, each call under recover().
//
// Answer:
//
//	has_equals  bool
//	decode_err  []string   ("" = decoded)
//	enc         []string   (json.Marshal of the decoded value; "" when not encodable)
//	enc_err     []string
//	matrix      []string   row i, column j: '1' vi.Equals(vj) true, '0' false, 'P' panic, '-' not evaluated
//	                       (diagonal: the very same value on both sides)
//	dup         string     char i: vi.Equals(second decoding of document i)
//	panics      []string   "i,j: message"
//	calls       int        number of Equals evaluations
const hookSrc = `package main

import (
	"encoding/json"
	"fmt"
	"reflect"
)

func init() { hooks["eqmatrix"] = eqMatrix }

func eqDecode(mk func() any, doc string) (v any, e string) {
	defer func() {
		if r := recover(); r != nil {
			v, e = nil, "panic: "+fmt.Sprint(r)
		}
	}()
	v = mk()
	if err := json.Unmarshal([]byte(doc), v); err != nil {
		return nil, err.Error()
	}
	return v, ""
}

func eqEncode(v any) (s string, e string) {
	defer func() {
		if r := recover(); r != nil {
			s, e = "", "panic: "+fmt.Sprint(r)
		}
	}()
	b, err := json.Marshal(v)
	if err != nil {
		return "", err.Error()
	}
	return string(b), ""
}

func eqCall(a, b any) (c byte, msg string) {
	defer func() {
		if r := recover(); r != nil {
			c, msg = 'P', fmt.Sprint(r)
		}
	}()
	m := reflect.ValueOf(a).MethodByName("Equals")
	out := m.Call([]reflect.Value{reflect.ValueOf(b).Elem()})
	if out[0].Bool() {
		return '1', ""
	}
	return '0', ""
}

func eqMatrix(req map[string]any) map[string]any {
	resp := map[string]any{}
	typ, _ := req["type"].(string)
	mk, ok := registry[typ]
	if !ok {
		resp["error"] = "unknown type " + typ
		return resp
	}
	m := reflect.ValueOf(mk()).MethodByName("Equals")
	if !m.IsValid() || m.Type().NumIn() != 1 || m.Type().NumOut() != 1 || m.Type().Out(0).Kind() != reflect.Bool {
		resp["has_equals"] = false
		return resp
	}
	resp["has_equals"] = true
	raw, _ := req["docs"].([]any)
	n := len(raw)
	vals := make([]any, n)
	dups := make([]any, n)
	decErr := make([]string, n)
	enc := make([]string, n)
	encErr := make([]string, n)
	for i, d := range raw {
		doc, _ := d.(string)
		vals[i], decErr[i] = eqDecode(mk, doc)
		if vals[i] == nil {
			continue
		}
		dups[i], _ = eqDecode(mk, doc)
		enc[i], encErr[i] = eqEncode(vals[i])
	}
	calls := 0
	var panics []string
	note := func(i, j int, msg string) {
		panics = append(panics, fmt.Sprintf("%d,%d: %s", i, j, msg))
	}
	matrix := make([]string, n)
	dup := make([]byte, n)
	for i := 0; i < n; i++ {
		row := make([]byte, n)
		dup[i] = '-'
		for j := 0; j < n; j++ {
			row[j] = '-'
			if vals[i] == nil || vals[j] == nil {
				continue
			}
			c, msg := eqCall(vals[i], vals[j])
			calls++
			row[j] = c
			if c == 'P' {
				note(i, j, msg)
			}
		}
		matrix[i] = string(row)
		if vals[i] != nil && dups[i] != nil {
			c, msg := eqCall(vals[i], dups[i])
			calls++
			dup[i] = c
			if c == 'P' {
				note(i, i, msg)
			}
		}
	}
	// the encodings must not have been changed by the comparisons (Equals is an observer)
	changed := []int{}
	for i := range vals {
		if vals[i] == nil || encErr[i] != "" {
			continue
		}
		if s, e := eqEncode(vals[i]); e == "" && s != enc[i] {
			changed = append(changed, i)
		}
	}
	resp["decode_err"] = decErr
	resp["enc"] = enc
	resp["enc_err"] = encErr
	resp["matrix"] = matrix
	resp["dup"] = string(dup)
	resp["panics"] = panics
	resp["calls"] = calls
	resp["changed"] = changed
	return resp
}
`
