//go:build verif

package main

// Single-fault documents: exactly one fault operator applied at exactly one
// position of a valid document, for all positions and all operators
// (DESIGN.md §3.3). The generator only *produces* documents; what they mean is
// decided by the evaluator (eval.go) and cross-checked with the reference
// validators.

import (
	"encoding/json"
	"strings"

	"github.com/grafana/cog/verifx/gschema"
)

type variant struct {
	val     any
	op      string // fault operator
	class   string // position class
	removed bool
}

type faultDoc struct {
	Doc   string
	Op    string
	Class string
}

func num(s string) json.Number { return json.Number(s) }

type fgen struct {
	s gschema.Schema
	e *evaluator
}

// wrongTypeValues: one representative of every JSON type the position does not admit.
func wrongTypeValues(want string) []variant {
	all := []struct {
		typ string
		v   any
	}{
		{"string", "x"}, {"integer", num("7")}, {"boolean", true}, {"array", []any{}}, {"object", map[string]any{}},
	}
	var out []variant
	if want == "any" {
		return nil
	}
	for _, a := range all {
		if typeMatches(want, a.typ) {
			continue
		}
		name := a.typ
		if name == "integer" {
			name = "number"
		}
		out = append(out, variant{val: a.v, op: "type:" + name})
	}
	if want == "integer" {
		out = append(out, variant{val: num("1.5"), op: "type:fraction"})
	}
	return out
}

func boundValues(t Term) []variant {
	switch {
	case t.A == "string":
		return []variant{
			{val: "", op: "len:too-short"}, {val: "a", op: "len:at-min"}, {val: "ab", op: "len:inside"},
			{val: "abc", op: "len:at-max"}, {val: "abcd", op: "len:too-long"},
			{val: "héé", op: "len:multibyte-at-max"}, {val: "日本語", op: "len:multibyte-at-max"},
			{val: "éééé", op: "len:multibyte-too-long"}, {val: "é", op: "len:multibyte-at-min"},
		}
	case t.A == "float32" || t.A == "float64":
		return []variant{
			{val: num("0.25"), op: "bound:below-min"}, {val: num("0.5"), op: "bound:at-min"}, {val: num("0.75"), op: "bound:above-min"},
			{val: num("-1.5"), op: "bound:below-min"}, {val: num("0.4999"), op: "bound:below-min"},
		}
	default:
		return []variant{
			{val: num("-1"), op: "bound:below-min"}, {val: num("0"), op: "bound:at-min"}, {val: num("1"), op: "bound:above-min"},
			{val: num("4"), op: "bound:below-max"}, {val: num("5"), op: "bound:at-max"}, {val: num("6"), op: "bound:above-max"},
		}
	}
}

func copyMap(m map[string]any) map[string]any {
	out := make(map[string]any, len(m)+1)
	for k, v := range m {
		out[k] = v
	}
	return out
}

// vars returns every single-fault variant of value v held at a position of type t.
func (g *fgen) vars(t Term, v any, chain []string, owner string) []variant {
	var out []variant
	class := classOf(chain)
	at := func(vs []variant) {
		for _, x := range vs {
			x.class = class
			out = append(out, x)
		}
	}
	if t.K == "ref" {
		owner = "referenced struct"
	}
	rt := g.e.resolve(t)
	// position-level operators
	if v != nil {
		at([]variant{{val: nil, op: "null"}})
	}
	at(wrongTypeValues(g.e.wantType(t)))
	if rt.K == "scalar" && rt.Constr {
		at(boundValues(rt))
	}
	if v == nil {
		return out
	}
	// descent
	switch rt.K {
	case "array":
		a, ok := v.([]any)
		if !ok {
			return out
		}
		for i, x := range a {
			for _, cv := range g.vars(rt.Sub[0], x, push(chain, "array element"), "nested struct") {
				na := append([]any{}, a...)
				na[i] = cv.val
				cv.val = na
				out = append(out, cv)
			}
		}
	case "map":
		m, ok := v.(map[string]any)
		if !ok {
			return out
		}
		for _, k := range sortedKeys(m) {
			for _, cv := range g.vars(rt.Sub[1], m[k], push(chain, "map value"), "nested struct") {
				nm := copyMap(m)
				nm[k] = cv.val
				cv.val = nm
				out = append(out, cv)
			}
		}
	case "struct":
		m, ok := v.(map[string]any)
		if !ok {
			return out
		}
		out = append(out, g.structVars(rt, m, chain, owner)...)
	case "disj":
		if !rt.Disc {
			if a, ok := v.([]any); ok {
				for _, b := range rt.Sub {
					if b.K != "array" {
						continue
					}
					for i, x := range a {
						for _, cv := range g.vars(b.Sub[0], x, push(chain, "array element"), "nested struct") {
							na := append([]any{}, a...)
							na[i] = cv.val
							cv.val = na
							out = append(out, cv)
						}
					}
				}
			}
			return out
		}
		m, ok := v.(map[string]any)
		if !ok {
			return out
		}
		ks, _ := m["kind"].(string)
		for _, b := range rt.Sub {
			bt := g.e.resolve(b)
			if bt.K != "struct" {
				continue
			}
			for i, f := range bt.Fields {
				if f.Name == "kind" && bt.Sub[i].K == "const" && strings.TrimPrefix(bt.Sub[i].A, "disc:") == ks {
					out = append(out, g.structVars(bt, m, chain, "union-branch struct")...)
				}
			}
		}
	}
	return out
}

func (g *fgen) structVars(rt Term, m map[string]any, chain []string, owner string) []variant {
	var out []variant
	for i, f := range rt.Fields {
		x, present := m[f.Name]
		if !present {
			continue
		}
		fchain := push(chain, fieldLabel(f.Required, owner))
		for _, cv := range g.vars(rt.Sub[i], x, fchain, "nested struct") {
			nm := copyMap(m)
			nm[f.Name] = cv.val
			cv.val = nm
			out = append(out, cv)
		}
		nm := copyMap(m)
		delete(nm, f.Name)
		op := "remove-optional"
		if f.Required {
			op = "remove-required"
			if rt.Sub[i].Default != "" {
				op = "remove-required-with-default"
			}
		}
		out = append(out, variant{val: nm, op: op, class: classOf(fchain)})
	}
	nm := copyMap(m)
	nm["zz"] = num("1")
	out = append(out, variant{val: nm, op: "unknown-key", class: "object at " + classOf(chain)})
	return out
}

// faults lists the single-fault documents of all valid bases, deduplicated by
// text (first label wins; the order is deterministic).
func faults(s gschema.Schema, bases []any, seen map[string]bool) []faultDoc {
	g := &fgen{s: s, e: &evaluator{s: s}}
	var out []faultDoc
	for _, b := range bases {
		for _, v := range g.vars(s.Objs[0].T, b, nil, "root struct") {
			text, err := json.Marshal(v.val)
			if err != nil {
				continue
			}
			if seen[string(text)] {
				continue
			}
			seen[string(text)] = true
			out = append(out, faultDoc{Doc: string(text), Op: v.op, Class: v.class})
		}
	}
	return out
}
