//go:build verif

package main

import (
	"encoding/json"
	"sort"

	"github.com/grafana/cog/verifx/gschema"
	"github.com/grafana/cog/verifx/irgen"
)

type Term = gschema.Term

func ref(n string) Term { return irgen.Ref(gschema.Pkg + "." + n) }
func con(t Term) Term   { t.Constr = true; return t }

// constrained leaves of grammar G (gschema: string[1..3], int64 [>=0,<5], float64 [>=0.5])
// and the support object P (struct {n: int64[c], s?: string[c]}).
func constrainedLeaves() []Term {
	return []Term{con(irgen.S("int64")), con(irgen.S("string")), con(irgen.S("float64")), ref("P")}
}

// sbuilder collects the extra named objects the wrappers create.
type sbuilder struct {
	objs   []gschema.Obj
	nq, nb int
}

func suffix(n int) string {
	if n == 0 {
		return ""
	}
	return string(rune('1' + n))
}

// wrapper puts a type at one more level of nesting (DESIGN §6 C08: array
// element, map value, optional/required field of a nested anonymous struct,
// nullable, field of a referenced struct, field of a union-branch struct).
type wrapper struct {
	name  string
	apply func(b *sbuilder, t Term) (Term, bool)
}

func wrappers() []wrapper {
	return []wrapper{
		{"array", func(b *sbuilder, t Term) (Term, bool) { return irgen.Array(t), true }},
		{"map", func(b *sbuilder, t Term) (Term, bool) { return irgen.Map(t), true }},
		{"struct-req", func(b *sbuilder, t Term) (Term, bool) { return irgen.Struct1("g", true, t), true }},
		{"struct-opt", func(b *sbuilder, t Term) (Term, bool) { return irgen.Struct1("g", false, t), true }},
		{"nullable", func(b *sbuilder, t Term) (Term, bool) {
			if t.Nullable || (t.K != "scalar" && t.K != "ref") {
				return t, false
			}
			return irgen.Nullable(t), true
		}},
		{"ref-req", func(b *sbuilder, t Term) (Term, bool) {
			name := "Q" + suffix(b.nq)
			b.nq++
			b.objs = append(b.objs, gschema.Obj{Name: name, T: irgen.Struct1("v", true, t)})
			return ref(name), true
		}},
		{"ref-opt", func(b *sbuilder, t Term) (Term, bool) {
			name := "Q" + suffix(b.nq)
			b.nq++
			b.objs = append(b.objs, gschema.Obj{Name: name, T: irgen.Struct1("v", false, t)})
			return ref(name), true
		}},
		{"union", func(b *sbuilder, t Term) (Term, bool) {
			sfx := suffix(b.nb)
			b.nb++
			a, bb := "Ba"+sfx, "Bb"+sfx
			b.objs = append(b.objs,
				gschema.Obj{Name: a, T: irgen.StructN([]irgen.Field{{Name: "kind", Required: true}, {Name: "v", Required: true}}, []Term{{K: "const", A: "disc:ba" + sfx}, t})},
				gschema.Obj{Name: bb, T: irgen.StructN([]irgen.Field{{Name: "kind", Required: true}, {Name: "w", Required: false}}, []Term{{K: "const", A: "disc:bb" + sfx}, con(irgen.S("int64"))})},
			)
			return Term{K: "disj", Sub: []Term{ref(a), ref(bb)}, Disc: true}, true
		}},
	}
}

// hasCompositeMap reports a map whose values are not scalars: the strict
// template then imports strconv without using it (a C02 finding), so such a
// schema only compiles when something else in the file uses strconv.
func hasCompositeMap(s gschema.Schema) bool {
	found := false
	var walk func(t Term)
	walk = func(t Term) {
		if t.K == "map" {
			switch t.Sub[1].K {
			case "scalar", "enum", "const":
			default:
				found = true
			}
		}
		for _, x := range t.Sub {
			walk(x)
		}
	}
	for _, o := range s.Objs {
		walk(o.T)
	}
	return found
}

// nested builds Root{f: w1(w2(...(leaf)))} (chain is outermost first); withZ
// adds the optional sibling `z: array(int64[c])`.
func nested(chain []wrapper, leaf Term, required, withZ bool) (gschema.Schema, bool) {
	b := &sbuilder{}
	t := leaf
	for i := len(chain) - 1; i >= 0; i-- {
		var ok bool
		t, ok = chain[i].apply(b, t)
		if !ok {
			return gschema.Schema{}, false
		}
	}
	root := irgen.Struct1("f", required, t)
	if withZ {
		root = irgen.StructN([]irgen.Field{{Name: "f", Required: required}, {Name: "z", Required: false}}, []Term{t, irgen.Array(con(irgen.S("int64")))})
	}
	objs := append([]gschema.Obj{{Name: "Root", T: root}}, b.objs...)
	return gschema.WithSupport(objs...), true
}

func withDefault(t Term) (Term, bool) {
	switch t.K {
	case "scalar", "enum":
		t.Default = "scalar"
		return t, true
	case "ref":
		if t.A == gschema.Pkg+".E" {
			t.Default = "scalar"
			return t, true
		}
	case "array":
		if t.Sub[0].String() == "string" {
			t.Default = "list"
			return t, true
		}
	}
	return t, false
}

// installDefaultFlavours adds default flavours beyond gschema's built-in
// "scalar" | "list" | "map" through gschema's hooks: the empty list, the empty
// map / struct, a struct value, and the zero value of each scalar kind (the
// nil-vs-zero confusions a "has a default" test can fall for).
func installDefaultFlavours() {
	gschema.DefaultHook = func(s gschema.Schema, t Term) (any, bool) {
		switch t.Default {
		case "emptylist":
			return []any{}, true
		case "emptymap":
			return map[string]any{}, true
		case "structval":
			if t.K == "struct" && len(t.Fields) > 0 {
				return map[string]any{t.Fields[0].Name: "x"}, true
			}
		case "zero":
			if t.K == "scalar" {
				switch t.A {
				case "bool":
					return false, true
				case "string", "any":
					return "", true
				case "float32", "float64":
					return json.Number("0.0"), true
				default:
					return json.Number("0"), true
				}
			}
		}
		return nil, false
	}
}

// defaultedTypes: a type with a default of every value kind (DESIGN §6 C08
// "missing required with/without default").
func defaultedTypes() []Term {
	d := func(t Term, flavour string) Term { t.Default = flavour; return t }
	return []Term{
		d(irgen.Array(irgen.S("string")), "emptylist"),
		d(irgen.Array(irgen.S("string")), "list"),
		d(irgen.Array(irgen.S("int64")), "emptylist"),
		d(irgen.Map(irgen.S("string")), "emptymap"),
		d(irgen.Map(irgen.S("string")), "map"),
		d(irgen.Struct1("g", false, irgen.S("string")), "emptymap"),
		d(irgen.Struct1("g", false, irgen.S("string")), "structval"),
		d(irgen.Enum("str"), "scalar"),
		d(irgen.Enum("int"), "scalar"),
		d(irgen.S("bool"), "zero"),
		d(irgen.S("int64"), "zero"),
		d(irgen.S("float64"), "zero"),
		d(irgen.S("string"), "zero"),
		d(irgen.S("bool"), "scalar"),
		d(irgen.S("int64"), "scalar"),
		d(irgen.S("string"), "scalar"),
	}
}

// enumerate returns the schemas of the tier, smallest first (quick ⊆ thorough).
func enumerate(thorough bool) []gschema.Schema {
	seen := map[string]bool{}
	var out []gschema.Schema
	add := func(s gschema.Schema) {
		k := s.String()
		if !seen[k] {
			seen[k] = true
			out = append(out, s)
		}
	}
	addNested := func(chain []wrapper, leaf Term, required bool) {
		s, ok := nested(chain, leaf, required, false)
		if !ok {
			return
		}
		add(s)
		if hasCompositeMap(s) {
			if z, ok := nested(chain, leaf, required, true); ok {
				add(z)
			}
		}
	}
	ws := wrappers()
	leaves := constrainedLeaves()
	both := []bool{true, false}

	// ---- constraint-bearing part: the constrained scalar at every position ----
	for _, l := range leaves {
		for _, req := range both {
			addNested(nil, l, req) // depth 1: required / optional field
			for _, w := range ws { // depth 2
				addNested([]wrapper{w}, l, req)
			}
		}
	}
	// constraint + default (a required field with a default may be absent)
	for _, l := range leaves[:3] {
		d, _ := withDefault(l)
		add(gschema.Field1(d, true))
		add(gschema.Field1(d, false))
	}
	// depth 3: two wrappers
	d3leaves := []Term{leaves[0], leaves[3]}
	d3req := []bool{true}
	if thorough {
		d3leaves = leaves
		d3req = both
	}
	for _, l := range d3leaves {
		for _, req := range d3req {
			for _, w1 := range ws {
				for _, w2 := range ws {
					addNested([]wrapper{w1, w2}, l, req)
				}
			}
		}
	}
	if thorough {
		// depth 4: three wrappers over the integer leaf, structural wrappers only
		var core []wrapper
		for _, w := range ws {
			switch w.name {
			case "array", "map", "struct-opt", "ref-req", "union":
				core = append(core, w)
			}
		}
		for _, w1 := range core {
			for _, w2 := range core {
				for _, w3 := range core {
					addNested([]wrapper{w1, w2, w3}, leaves[0], true)
				}
			}
		}
	}

	// ---- plain part: the strict-decoder clauses on unconstrained schemas ----
	plain := []Term{
		irgen.S("string"), irgen.S("bool"), irgen.S("int64"), irgen.S("float64"), irgen.S("any"), irgen.S("datetime"),
		irgen.Enum("str"), irgen.Enum("int"), irgen.Const("str"), irgen.Const("int"),
		ref("S"), ref("E"), ref("A"), ref("K"),
	}
	for _, l := range plain {
		for _, req := range both {
			add(gschema.Field1(l, req))
			if d, ok := withDefault(l); ok {
				add(gschema.Field1(d, req))
			}
			if l.K != "const" {
				add(gschema.Field1(irgen.Nullable(l), req))
			}
		}
	}
	inner := []Term{irgen.S("string"), irgen.S("int64"), irgen.S("bool"), irgen.S("any"), irgen.Enum("str"), ref("S"), ref("E")}
	for _, l := range inner {
		for _, req := range both {
			add(gschema.Field1(irgen.Array(l), req))
			add(gschema.Field1(irgen.Map(l), req))
			add(gschema.Field1(irgen.Struct1("g", true, l), req))
			add(gschema.Field1(irgen.Struct1("g", false, l), req))
		}
	}
	if d, ok := withDefault(irgen.Array(irgen.S("string"))); ok {
		add(gschema.Field1(d, true))
		add(gschema.Field1(d, false))
	}
	// map of referenced structs next to something that makes the file compile
	add(gschema.WithSupport(gschema.Obj{Name: "Root", T: irgen.StructN([]irgen.Field{{Name: "f", Required: true}, {Name: "z", Required: false}}, []Term{irgen.Map(ref("S")), irgen.Array(ref("S"))})}))
	// unions: scalars and discriminated references
	unions := []Term{
		irgen.Disj(irgen.S("string"), irgen.S("bool")),
		irgen.Disj(irgen.S("string"), irgen.S("int64")),
		irgen.Disj(irgen.S("string"), irgen.Array(irgen.S("string"))),
		{K: "disj", Sub: []Term{ref("S"), ref("T")}, Disc: true},
	}
	for _, u := range unions {
		add(gschema.Field1(u, true))
		add(gschema.Field1(u, false))
		if thorough {
			add(gschema.Field1(irgen.Array(u), true))
			add(gschema.Field1(irgen.Map(u), true))
		}
	}
	// defaults of every value kind, at the root and inside a referenced struct
	// (required: may be absent; optional: likewise), plus next to a required
	// sibling without default
	var refReq, refOpt wrapper
	for _, w := range ws {
		switch w.name {
		case "ref-req":
			refReq = w
		case "ref-opt":
			refOpt = w
		}
	}
	for _, t := range defaultedTypes() {
		add(gschema.Field1(t, true))
		add(gschema.Field1(t, false))
		addNested([]wrapper{refReq}, t, true)
		addNested([]wrapper{refOpt}, t, true)
		add(gschema.WithSupport(gschema.Obj{Name: "Root", T: irgen.StructN([]irgen.Field{{Name: "a", Required: true}, {Name: "b", Required: true}}, []Term{irgen.S("string"), t})}))
	}
	// a default declared on the NON-NULL BRANCH of a nullable scalar (JSON Schema
	// `oneOf: [{type: T, default: d}, {type: null}]`; OpenAPI/CUE put it on the
	// type): a required field carrying it may be absent, at the root and inside a
	// referenced struct
	for _, l := range []Term{irgen.S("string"), irgen.S("int64"), irgen.S("bool"), irgen.Enum("str"), irgen.S("float64")} {
		t := irgen.Nullable(l)
		t.Default = "scalar@branch"
		add(gschema.Field1(t, true))
		add(gschema.Field1(t, false))
		addNested([]wrapper{refReq}, t, true)
		addNested([]wrapper{refOpt}, t, true)
		add(gschema.WithSupport(gschema.Obj{Name: "Root", T: irgen.StructN([]irgen.Field{{Name: "a", Required: true}, {Name: "b", Required: true}}, []Term{irgen.S("string"), t})}))
		// the same default declared on the union, for comparison
		u := irgen.Nullable(l)
		u.Default = "scalar"
		add(gschema.Field1(u, true))
		addNested([]wrapper{refReq}, u, true)
	}
	// the SAME type used more than once in one package (passes that replace a
	// type by a generated named object - unions, anonymous structs, enums - see
	// the second occurrence through a different path): unions with a `null`
	// branch, plain unions, discriminated unions, anonymous structs, enums and
	// nullable scalars, in two fields of one struct (every requiredness
	// combination), in two objects, and as a field next to a collection of it
	null := irgen.Null()
	repeated := []Term{
		irgen.Disj(irgen.S("string"), irgen.S("int64"), null),
		irgen.Disj(irgen.S("string"), irgen.S("bool"), null),
		{K: "disj", Sub: []Term{ref("S"), ref("T"), null}, Disc: true},
		irgen.Disj(irgen.S("string"), irgen.S("bool")),
		{K: "disj", Sub: []Term{ref("S"), ref("T")}, Disc: true},
		irgen.Struct1("g", true, con(irgen.S("int64"))),
		irgen.Enum("str"),
		irgen.Nullable(irgen.S("string")),
		irgen.Nullable(irgen.Enum("str")),
		irgen.Nullable(ref("P")),
	}
	two := func(ra, rb bool, a, b Term) {
		add(gschema.WithSupport(gschema.Obj{Name: "Root", T: irgen.StructN([]irgen.Field{{Name: "a", Required: ra}, {Name: "b", Required: rb}}, []Term{a, b})}))
	}
	for i, u := range repeated {
		add(gschema.Field1(u, true))
		add(gschema.Field1(u, false))
		for _, ra := range both {
			for _, rb := range both {
				two(ra, rb, u, u)
			}
		}
		// in two objects: Root{a: U, f: ref(Q)}, Q{v: U}
		for _, rv := range both {
			add(gschema.WithSupport(
				gschema.Obj{Name: "Root", T: irgen.StructN([]irgen.Field{{Name: "a", Required: true}, {Name: "f", Required: true}}, []Term{u, ref("Q")})},
				gschema.Obj{Name: "Q", T: irgen.Struct1("v", rv, u)}))
		}
		// next to a collection of the same type
		two(true, true, irgen.Array(u), u)
		two(true, true, u, irgen.Array(u))
		if thorough {
			two(true, true, irgen.Map(u), u)
			two(true, true, u, irgen.Map(u))
			add(gschema.WithSupport(gschema.Obj{Name: "Root", T: irgen.StructN([]irgen.Field{{Name: "a", Required: true}, {Name: "b", Required: true}, {Name: "c", Required: true}}, []Term{u, u, u})}))
		}
		// the same branches with and without `null`
		if i < 3 {
			plain := u
			plain.Sub = u.Sub[:len(u.Sub)-1]
			two(true, true, plain, u)
			two(true, true, u, plain)
		}
	}
	// two fields: required x optional over a few representative types
	rep := []Term{irgen.S("string"), con(irgen.S("int64")), irgen.S("any"), ref("P")}
	for _, a := range rep {
		for _, b := range rep {
			add(gschema.WithSupport(gschema.Obj{Name: "Root", T: irgen.StructN([]irgen.Field{{Name: "a", Required: true}, {Name: "b", Required: false}}, []Term{a, b})}))
		}
	}
	sort.SliceStable(out, func(i, j int) bool { return out[i].Size() < out[j].Size() })
	return out
}
