//go:build verif

package main

// Reference evaluator of C08, written from the property statement and
// DESIGN.md Appendix A.3 over the abstract schema (grammar G) and a JSON
// document. It never looks at generated code.
//
//   * violations: constrained positions (string[minLength 1,maxLength 3],
//     integer [>=0,<5], number [>=0.5]) holding a value that violates a
//     constraint; positions are enumerated through optional fields (only when
//     present and not null), arrays, maps, referenced structs and union
//     branches. String lengths count characters (JSON Schema / CUE runes).
//   * the four strict-rejection conditions: undeclared field; required field
//     without default absent; null for a required non-nullable field; value of
//     the wrong JSON type (recursively).
//   * everything the statement is silent about is collected separately and
//     makes the strict verdict "unjudged": null for an optional / element /
//     map-value position that is not nullable, enum non-members, constant
//     mismatches, unknown discriminator values.

import (
	"encoding/json"
	"math/big"
	"strconv"
	"strings"
	"unicode/utf8"

	"github.com/grafana/cog/verifx/gschema"
)

type slotKind int

const (
	slotRoot slotKind = iota
	slotReq
	slotOpt
	slotElem
	slotMapVal
)

type finding struct {
	Path  string
	What  string // constraint operator / condition detail
	Class string // position class (for failure kinds): innermost slot " in " its container
	Type  string // abstract type of the position (wrong-type findings)
}

// Slot is the innermost label of the position class.
func (f finding) Slot() string {
	if i := strings.Index(f.Class, " in "); i >= 0 {
		return f.Class[:i]
	}
	return f.Class
}

type verdict struct {
	Viol        []finding // violated (path, constraint)
	Unknown     []finding // clause 1
	Missing     []finding // clause 2
	NullReq     []finding // clause 3
	WrongType   []finding // clause 4
	MissingDef  []finding // required field with a default absent: allowed
	NullLenient []finding // statement silent
	Other       []finding // statement silent (enum member, constant, discriminator value)
}

func (v *verdict) mustReject() bool {
	return len(v.Unknown)+len(v.Missing)+len(v.NullReq)+len(v.WrongType) > 0
}

func (v *verdict) strictUnjudged() bool {
	return !v.mustReject() && len(v.NullLenient)+len(v.Other) > 0
}

// schemaValid: would the (open) source schema accept the document? Used only
// for the cross-check against the reference validators. ok=false when the
// answer depends on the schema language (required field with default absent).
func (v *verdict) schemaValid() (valid, ok bool) {
	if len(v.MissingDef) > 0 {
		return false, false
	}
	return len(v.Viol)+len(v.Missing)+len(v.NullReq)+len(v.WrongType)+len(v.NullLenient)+len(v.Other) == 0, true
}

type evaluator struct {
	s gschema.Schema
	v *verdict
}

func evaluate(s gschema.Schema, doc any) *verdict {
	e := &evaluator{s: s, v: &verdict{}}
	e.eval(s.Objs[0].T, doc, "", nil, slotRoot, "root struct")
	return e.v
}

func classOf(chain []string) string {
	switch len(chain) {
	case 0:
		return "root"
	case 1:
		return chain[0]
	}
	return chain[len(chain)-1] + " in " + chain[len(chain)-2]
}

func push(chain []string, l string) []string {
	out := make([]string, len(chain)+1)
	copy(out, chain)
	out[len(chain)] = l
	return out
}

func fieldLabel(required bool, owner string) string {
	if required {
		return "required field of " + owner
	}
	return "optional field of " + owner
}

func ratOf(n json.Number) *big.Rat {
	r, ok := new(big.Rat).SetString(string(n))
	if !ok {
		return nil
	}
	return r
}

func jsonType(v any) string {
	switch x := v.(type) {
	case nil:
		return "null"
	case bool:
		return "boolean"
	case string:
		return "string"
	case json.Number:
		if r := ratOf(x); r != nil && r.IsInt() {
			return "integer"
		}
		return "number"
	case []any:
		return "array"
	case map[string]any:
		return "object"
	}
	return "?"
}

// wantType names the JSON type a term demands.
func (e *evaluator) wantType(t Term) string {
	t = e.resolve(t)
	switch t.K {
	case "scalar":
		switch t.A {
		case "string", "datetime", "bytes":
			return "string"
		case "bool":
			return "boolean"
		case "any":
			return "any"
		case "null":
			return "null"
		case "float32", "float64":
			return "number"
		}
		return "integer"
	case "const":
		switch t.A {
		case "int":
			return "integer"
		case "bool":
			return "boolean"
		case "float":
			return "number"
		}
		return "string"
	case "enum":
		if t.A == "int" {
			return "integer"
		}
		return "string"
	case "array":
		return "array"
	case "map", "struct":
		return "object"
	case "disj":
		if t.Disc {
			return "object"
		}
		var p []string
		for _, b := range t.Sub {
			if isNullBranch(b) {
				continue // a `null` branch makes the union nullable, see hasNullBranch
			}
			p = append(p, e.wantType(b))
		}
		return strings.Join(p, "|")
	}
	return "?"
}

// resolve follows references (nullability of the referring position is kept by the caller).
func (e *evaluator) resolve(t Term) Term {
	for i := 0; i < 8 && t.K == "ref"; i++ {
		target, ok := e.s.Lookup(strings.TrimPrefix(t.A, gschema.Pkg+"."))
		if !ok {
			return t
		}
		t = target
	}
	return t
}

func isNullBranch(t Term) bool { return t.K == "scalar" && t.A == "null" }

// hasNullBranch: a union with a `null` branch admits null, exactly like a nullable type.
func hasNullBranch(t Term) bool {
	if t.K != "disj" {
		return false
	}
	for _, b := range t.Sub {
		if isNullBranch(b) {
			return true
		}
	}
	return false
}

func typeMatches(want, got string) bool {
	if want == "any" {
		return true
	}
	for _, w := range strings.Split(want, "|") {
		if w == got || w == "number" && got == "integer" {
			return true
		}
	}
	return false
}

func (e *evaluator) eval(t Term, v any, path string, chain []string, sl slotKind, owner string) {
	nullable := t.Nullable
	orig := t
	if t.K == "ref" {
		owner = "referenced struct"
		rt := e.resolve(t)
		nullable = nullable || rt.Nullable
		t = rt
	}
	nullable = nullable || hasNullBranch(t)
	class := classOf(chain)
	if t.K == "scalar" && t.A == "any" {
		return // any value, null included
	}
	if v == nil {
		switch {
		case nullable || t.K == "scalar" && t.A == "null":
		case sl == slotReq:
			e.v.NullReq = append(e.v.NullReq, finding{Path: path, What: "null for a required non-nullable field", Class: class})
		default:
			e.v.NullLenient = append(e.v.NullLenient, finding{Path: path, What: "null", Class: class})
		}
		return
	}
	want, got := e.wantType(t), jsonType(v)
	if !typeMatches(want, got) {
		e.v.WrongType = append(e.v.WrongType, finding{Path: path, What: got + " for " + want, Class: class, Type: e.typeName(orig, true)})
		return
	}
	switch t.K {
	case "scalar":
		if !t.Constr {
			return
		}
		switch x := v.(type) {
		case string:
			n := utf8.RuneCountInString(x)
			if n < 1 {
				e.v.Viol = append(e.v.Viol, finding{Path: path, What: "minLength", Class: class})
			}
			if n > 3 {
				e.v.Viol = append(e.v.Viol, finding{Path: path, What: "maxLength", Class: class})
			}
		case json.Number:
			r := ratOf(x)
			if t.A == "float32" || t.A == "float64" {
				if r.Cmp(big.NewRat(1, 2)) < 0 {
					e.v.Viol = append(e.v.Viol, finding{Path: path, What: ">=", Class: class})
				}
				return
			}
			if r.Sign() < 0 {
				e.v.Viol = append(e.v.Viol, finding{Path: path, What: ">=", Class: class})
			}
			if r.Cmp(big.NewRat(5, 1)) >= 0 {
				e.v.Viol = append(e.v.Viol, finding{Path: path, What: "<", Class: class})
			}
		}
	case "const":
		var wantV any
		switch t.A {
		case "str":
			wantV = "k"
		case "int":
			wantV = "7"
		case "bool":
			wantV = true
		case "float":
			wantV = "3/2"
		default:
			wantV = strings.TrimPrefix(t.A, "disc:")
		}
		gotV := v
		if n, ok := v.(json.Number); ok {
			gotV = ratOf(n).RatString()
		}
		if gotV != wantV {
			e.v.Other = append(e.v.Other, finding{Path: path, What: "constant mismatch", Class: class})
		}
	case "enum":
		ok := false
		if t.A == "int" {
			if n, isN := v.(json.Number); isN {
				s := ratOf(n).RatString()
				ok = s == "1" || s == "2"
			}
		} else {
			ok = v == "a" || v == "b"
		}
		if !ok {
			e.v.Other = append(e.v.Other, finding{Path: path, What: "not an enum member", Class: class})
		}
	case "array":
		for i, x := range v.([]any) {
			e.eval(t.Sub[0], x, path+"["+itoa(i)+"]", push(chain, "array element"), slotElem, "nested struct")
		}
	case "map":
		m := v.(map[string]any)
		for _, k := range sortedKeys(m) {
			e.eval(t.Sub[1], m[k], path+"["+k+"]", push(chain, "map value"), slotMapVal, "nested struct")
		}
	case "struct":
		m := v.(map[string]any)
		declared := map[string]bool{}
		for i, f := range t.Fields {
			declared[f.Name] = true
			ft := t.Sub[i]
			fpath := f.Name
			if path != "" {
				fpath = path + "." + f.Name
			}
			fchain := push(chain, fieldLabel(f.Required, owner))
			x, present := m[f.Name]
			if !present {
				if f.Required {
					if ft.Default != "" {
						e.v.MissingDef = append(e.v.MissingDef, finding{Path: fpath, What: "required field with a default is absent", Class: classOf(fchain)})
					} else {
						e.v.Missing = append(e.v.Missing, finding{Path: fpath, What: "required field is absent", Class: classOf(fchain)})
					}
				}
				continue
			}
			sl := slotOpt
			if f.Required {
				sl = slotReq
			}
			e.eval(ft, x, fpath, fchain, sl, "nested struct")
		}
		for _, k := range sortedKeys(m) {
			if !declared[k] {
				p := k
				if path != "" {
					p = path + "." + k
				}
				e.v.Unknown = append(e.v.Unknown, finding{Path: p, What: "undeclared field", Class: "object at " + class})
			}
		}
	case "disj":
		if !t.Disc {
			// union of scalars: the JSON type matched one branch; check array elements of an array branch
			for _, b := range t.Sub {
				if b.K == "array" && got == "array" {
					e.eval(b, v, path, chain, sl, owner)
				}
			}
			return
		}
		m := v.(map[string]any)
		kind, present := m["kind"]
		kpath := "kind"
		if path != "" {
			kpath = path + ".kind"
		}
		kclass := classOf(push(chain, fieldLabel(true, "union-branch struct")))
		if !present {
			e.v.Missing = append(e.v.Missing, finding{Path: kpath, What: "discriminator field is absent", Class: kclass})
			return
		}
		if kind == nil {
			e.v.NullReq = append(e.v.NullReq, finding{Path: kpath, What: "null discriminator", Class: kclass})
			return
		}
		ks, isStr := kind.(string)
		if !isStr {
			e.v.WrongType = append(e.v.WrongType, finding{Path: kpath, What: jsonType(kind) + " for string", Class: kclass, Type: "discriminator constant"})
			return
		}
		for _, b := range t.Sub {
			bt := e.resolve(b)
			if bt.K != "struct" {
				continue
			}
			for i, f := range bt.Fields {
				if f.Name == "kind" && bt.Sub[i].K == "const" && strings.TrimPrefix(bt.Sub[i].A, "disc:") == ks {
					e.eval(bt, v, path, chain, sl, "union-branch struct")
					return
				}
			}
		}
		e.v.Other = append(e.v.Other, finding{Path: kpath, What: "unknown discriminator value", Class: kclass})
	}
}

func itoa(i int) string { return strconv.Itoa(i) }

func sortedKeys(m map[string]any) []string {
	keys := make([]string, 0, len(m))
	for k := range m {
		keys = append(keys, k)
	}
	// insertion sort: tiny maps
	for i := 1; i < len(keys); i++ {
		for j := i; j > 0 && keys[j] < keys[j-1]; j-- {
			keys[j], keys[j-1] = keys[j-1], keys[j]
		}
	}
	return keys
}

// typeName abstracts the type of a position for failure kinds.
func (e *evaluator) typeName(t Term, deep bool) string {
	rt := e.resolve(t)
	name := rt.K
	switch rt.K {
	case "scalar":
		name = rt.A
		if rt.Constr {
			name += "[c]"
		}
	case "array":
		if deep {
			name = "array of " + e.typeName(rt.Sub[0], false)
		}
	case "map":
		if deep {
			name = "map of " + e.typeName(rt.Sub[1], false)
		}
	case "struct":
		if t.K == "ref" {
			name = "referenced struct"
		}
	case "disj":
		name = "union of scalars"
		if rt.Disc {
			name = "discriminated union"
		}
	}
	if t.Nullable || hasNullBranch(rt) {
		name += "?"
	}
	switch t.Default {
	case "":
	case "scalar":
		name += "=default"
	default:
		name += "=default(" + t.Default + ")"
	}
	return name
}

// typeOfPath maps a path reported by the generated code to the abstract type of the position it names ("?" if it does not follow the schema).
func typeOfPath(s gschema.Schema, path string) string {
	_, t := walkPath(s, path)
	return t
}

// classOfPath maps a path reported by the generated code ("a.b[0].c") back to
// a position class of the schema; "?" when the path does not follow the schema.
func classOfPath(s gschema.Schema, path string) string {
	c, _ := walkPath(s, path)
	return c
}

func walkPath(s gschema.Schema, path string) (string, string) {
	e := &evaluator{s: s}
	toks := pathTokens(path)
	t := s.Objs[0].T
	owner := "root struct"
	var chain []string
	for _, tk := range toks {
		if t.K == "ref" {
			owner = "referenced struct"
			t = e.resolve(t)
		}
		switch {
		case t.K == "struct" && !tk.index:
			found := false
			for i, f := range t.Fields {
				if f.Name == tk.s {
					chain = push(chain, fieldLabel(f.Required, owner))
					t = t.Sub[i]
					owner = "nested struct"
					found = true
					break
				}
			}
			if !found {
				return "?", "?"
			}
		case t.K == "array" && tk.index:
			chain = push(chain, "array element")
			t = t.Sub[0]
			owner = "nested struct"
		case t.K == "map" && tk.index:
			chain = push(chain, "map value")
			t = t.Sub[1]
			owner = "nested struct"
		case t.K == "disj" && t.Disc && !tk.index:
			// either a branch selector of the generated union struct or a field of a branch
			found := false
			for _, b := range t.Sub {
				bt := e.resolve(b)
				if bt.K != "struct" {
					continue
				}
				if strings.EqualFold(strings.TrimPrefix(b.A, gschema.Pkg+"."), tk.s) {
					t = bt
					owner = "union-branch struct"
					found = true
					break
				}
				for i, f := range bt.Fields {
					if f.Name == tk.s && f.Name != "kind" {
						chain = push(chain, fieldLabel(f.Required, "union-branch struct"))
						t = bt.Sub[i]
						owner = "nested struct"
						found = true
						break
					}
				}
				if found {
					break
				}
			}
			if !found {
				return "?", "?"
			}
		default:
			return "?", "?"
		}
	}
	return classOf(chain), e.typeName(t, true)
}

type pathTok struct {
	s     string
	index bool
}

// pathTokens splits "a.b[0].c" / "m[key].c" into name and index tokens.
func pathTokens(p string) []pathTok {
	var out []pathTok
	cur := ""
	flush := func() {
		if cur != "" {
			out = append(out, pathTok{cur, false})
			cur = ""
		}
	}
	for i := 0; i < len(p); i++ {
		switch p[i] {
		case '.':
			flush()
		case '[':
			flush()
			j := strings.IndexByte(p[i:], ']')
			if j < 0 {
				cur += p[i:]
				i = len(p)
				break
			}
			out = append(out, pathTok{p[i+1 : i+j], true})
			i += j
		default:
			cur += string(p[i])
		}
	}
	flush()
	return out
}

// pathMentioned: does the error text name the expected path? Lenient: some
// line's path must contain the expected tokens in order (extra segments, e.g.
// the branch selector of a generated union struct, are tolerated) and end
// with the same token.
func pathMentioned(errText, want string) bool {
	wt := pathTokens(want)
	for _, line := range strings.Split(errText, "\n") {
		p := line
		if i := strings.Index(line, ": "); i >= 0 {
			p = line[:i]
		}
		gt := pathTokens(p)
		if len(gt) == 0 || len(wt) == 0 || gt[len(gt)-1] != wt[len(wt)-1] {
			continue
		}
		j := 0
		for _, g := range gt {
			if j < len(wt) && g == wt[j] {
				j++
			}
		}
		if j == len(wt) {
			return true
		}
	}
	return false
}
