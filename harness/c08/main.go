//go:build verif

// C08: the generated Go Validate() reports exactly the violated constraints
// (with the path of the offender) and the generated strict decoder rejects
// exactly the four document faults of the statement. DESIGN.md §6 C08, A.3.
//
// Space: the constraint-bearing part of grammar G with the constrained scalar
// at every position up to the tier's depth + plain schemas for the strict
// clauses (schemas.go), rendered in the three input formats; documents = the
// valid documents of the gschema alphabet (all reference validators accept)
// plus every single-fault document (faults.go). Oracle = eval.go, cross-checked
// against the reference validators on every document.
package main

import (
	"encoding/json"
	"fmt"
	"os"
	"regexp"
	"runtime"
	"sort"
	"strings"
	"sync"
	"time"

	"github.com/grafana/cog/verifx/genrun"
	"github.com/grafana/cog/verifx/gschema"
	"github.com/grafana/cog/verifx/vx"
)

var (
	reQuoted = regexp.MustCompile(`"[^"]*"|'[^']*'`)
	reDigits = regexp.MustCompile(`[0-9]+`)
	reIDs    = regexp.MustCompile(`s[0-9]{4}[joc]`)
	reGoFld  = regexp.MustCompile(`Go struct field \S+ of`)
)

func normMsg(s string) string {
	s = reIDs.ReplaceAllString(s, "<id>")
	s = reGoFld.ReplaceAllString(s, "Go struct field … of")
	s = reQuoted.ReplaceAllString(s, `"…"`)
	s = reDigits.ReplaceAllString(s, "N")
	if len(s) > 120 {
		s = s[:120]
	}
	return strings.TrimSpace(s)
}

// normErr normalises an error text of the generated code: per line the
// message (digits/quotes abstracted) and the class of the position it names.
func normErr(s gschema.Schema, text string) string {
	seen := map[string]bool{}
	var parts []string
	for _, line := range strings.Split(text, "\n") {
		msg, cls := line, ""
		if i := strings.Index(line, ": "); i >= 0 && !strings.ContainsAny(line[:i], " ") {
			if c := typeOfPath(s, line[:i]); c != "?" {
				cls = " @ " + c
			}
			msg = line[i+2:]
			// nested "path: path: msg" produced by wrapping plain errors
			for {
				j := strings.Index(msg, ": ")
				if j < 0 || strings.ContainsAny(msg[:j], " ") {
					break
				}
				msg = msg[j+2:]
			}
		}
		p := normMsg(msg) + cls
		if !seen[p] {
			seen[p] = true
			parts = append(parts, p)
		}
	}
	sort.Strings(parts)
	if len(parts) > 2 {
		parts = parts[:2]
	}
	return strings.Join(parts, " ; ")
}

type docPlan struct {
	Doc    string
	Op     string // "valid" or the fault operator
	Class  string
	V      *verdict
	// Judged per input format: the format's own reference validator agrees with
	// the evaluator on the validity of the document (or the class is
	// validator-independent: an absent required field that has a default).
	Judged map[string]bool
}

type schemaPlan struct {
	Docs         []docPlan
	Bases        int
	CrossChecked int
	Excluded     int
	Disagree     []string
}

func decode(doc string) (any, error) {
	dec := json.NewDecoder(strings.NewReader(doc))
	dec.UseNumber()
	var v any
	err := dec.Decode(&v)
	return v, err
}

// plan builds the document set of one schema, evaluates it with the reference
// evaluator and cross-checks the evaluator against the reference validators.
func plan(s gschema.Schema, vals map[string]gschema.Validator) *schemaPlan {
	p := &schemaPlan{}
	if len(vals) == 0 {
		return p
	}
	seen := map[string]bool{}
	var bases []any
	add := func(doc, op, class string, isBase bool) {
		v, err := decode(doc)
		if err != nil {
			vx.Fatalf("bad document %s: %v", doc, err)
		}
		vd := evaluate(s, v)
		accepted, agree := gschema.Accepted(vals, doc)
		sv, comparable := vd.schemaValid()
		judged := map[string]bool{}
		anyAccepts := false
		for _, f := range gschema.Formats {
			own, ok := vals[f]
			if !ok {
				continue
			}
			a := own(doc)
			anyAccepts = anyAccepts || a
			// required-with-default absent: JSON Schema `required` and CUE defaults differ by design, always judged
			judged[f] = !comparable || a == sv
			if !judged[f] {
				p.Excluded++
			}
		}
		if comparable && agree {
			p.CrossChecked++
			if sv != accepted {
				p.Disagree = append(p.Disagree, fmt.Sprintf("schema %s document %s (%s): evaluator valid=%v %+v, reference validators accepted=%v", s.String(), doc, op, sv, *vd, accepted))
			}
		}
		if isBase {
			if !(sv && comparable && anyAccepts) {
				return
			}
			bases = append(bases, v)
		}
		p.Docs = append(p.Docs, docPlan{Doc: doc, Op: op, Class: class, V: vd, Judged: judged})
	}
	tried := map[string]bool{}
	for _, v := range s.Values(s.Objs[0].T, 6) {
		b, _ := json.Marshal(v)
		if tried[string(b)] {
			continue
		}
		tried[string(b)] = true
		n := len(bases)
		add(string(b), "valid", "root", true)
		if len(bases) > n {
			seen[string(b)] = true // invalid alphabet members stay available as single-fault documents
		}
	}
	p.Bases = len(bases)
	for _, f := range faults(s, bases, seen) {
		add(f.Doc, f.Op, f.Class, false)
	}
	return p
}

type problem struct {
	kind, what string
	path string // document path of the fault the problem is about ("" = whole document)
}

// under reports whether path lies strictly below prefix (token-wise).
func under(path, prefix string) bool {
	pt, qt := pathTokens(path), pathTokens(prefix)
	if len(pt) <= len(qt) {
		return false
	}
	for i := range qt {
		if pt[i] != qt[i] {
			return false
		}
	}
	return true
}

// judge compares one driver answer with the evaluator's verdict.
func judge(s gschema.Schema, d docPlan, resp map[string]any, bump func(string)) []problem {
	var out []problem
	v := d.V
	str := func(k string) (string, bool) {
		x, ok := resp[k]
		if !ok || x == nil {
			return "", false
		}
		return fmt.Sprint(x), true
	}
	for _, k := range []string{"decode", "encode", "validate", "strict"} {
		if p, ok := str(k + "_panic"); ok {
			clause := map[string]string{"decode": "validate: json.Unmarshal panics", "encode": "validate: json.Marshal panics", "validate": "validate: Validate() panics", "strict": "strict: UnmarshalJSONStrict panics"}[k]
			out = append(out, problem{clause + ": " + normMsg(p), fmt.Sprintf("%s: %s", clause, p), ""})
		}
	}
	// ---- Validate(): judged on the value the standard decoder produced ----
	// Only documents whose decoded value is determined by the statement are
	// judged: valid documents, constraint faults, unknown keys (ignored by the
	// standard decoder), nulls at optional/nullable positions (= absent).
	// A missing/null required field or a wrong type leaves a zero value the
	// document does not describe: unjudged (panics still count).
	_, decodeErr := str("decode_err")
	_, decodePanic := str("decode_panic")
	validateJudged := !decodeErr && !decodePanic && len(v.Missing)+len(v.MissingDef)+len(v.NullReq)+len(v.WrongType)+len(v.Other) == 0
	for _, n := range v.NullLenient {
		// null for an optional field is "not present"; null inside arrays/maps becomes a zero value
		if !strings.HasPrefix(n.Class, "optional field") {
			validateJudged = false
		}
	}
	if decodeErr && !v.mustReject() && len(v.NullLenient)+len(v.Other) == 0 {
		e, _ := str("decode_err")
		bump("std-decode-error-on-type-correct-doc(C01): " + normMsg(e))
	}
	if validateJudged {
		has, _ := resp["has_validate"].(bool)
		verr, failed := str("validate_err")
		switch {
		case !has:
			if _, p := str("validate_panic"); !p {
				out = append(out, problem{"validate: no Validate method", "generate_validate is set but the root type has no Validate()", ""})
			}
		case len(v.Viol) > 0 && !failed:
			bump("validate-judged-violation")
			for _, f := range v.Viol {
				out = append(out, problem{fmt.Sprintf("validate: violation not reported @ %s in %s", f.What, f.Class),
					fmt.Sprintf("Validate() returns nil although %s violates %s", f.Path, f.What), f.Path})
			}
		case len(v.Viol) > 0:
			bump("validate-judged-violation")
			for _, f := range v.Viol {
				if !pathMentioned(verr, f.Path) {
					out = append(out, problem{fmt.Sprintf("validate: path missing from error @ %s in %s", f.What, f.Class),
						fmt.Sprintf("Validate() fails but does not name the offending path %s (%s): %q", f.Path, f.What, verr), f.Path})
				}
			}
		case failed:
			bump("validate-judged-valid")
			out = append(out, problem{"validate: valid value rejected: " + normErr(s, verr), fmt.Sprintf("no constraint is violated but Validate() returns %q", verr), ""})
		default:
			bump("validate-judged-valid")
		}
	} else {
		bump("validate-unjudged")
	}
	// ---- strict decoder ----
	has, _ := resp["has_strict"].(bool)
	serr, rejected := str("strict_err")
	_, spanic := str("strict_panic")
	switch {
	case spanic:
	case !has:
		out = append(out, problem{"strict: no UnmarshalJSONStrict method", "generate_strict_unmarshaller is set but the root type has no UnmarshalJSONStrict", ""})
	case v.mustReject():
		bump("strict-judged-reject")
		if !rejected {
			report := func(cond string, fs []finding) {
				for _, f := range fs {
					what := cond
					if cond == "wrong JSON type" {
						// the kind names the demanded type (and the offered one only for the integer/fraction lenience)
						what += " for " + f.Type
						if strings.HasPrefix(f.What, "number for integer") {
							what = "fraction for integer"
						}
					}
					out = append(out, problem{fmt.Sprintf("strict: %s accepted @ %s", what, f.Slot()),
						fmt.Sprintf("UnmarshalJSONStrict accepts the document although %s: %s", f.Path, f.What), f.Path})
				}
			}
			report("undeclared field", v.Unknown)
			report("missing required field", v.Missing)
			report("null for a required field", v.NullReq)
			report("wrong JSON type", v.WrongType)
		}
	case v.strictUnjudged():
		bump("strict-unjudged(statement silent)")
	default:
		bump("strict-judged-accept")
		if rejected {
			out = append(out, problem{"strict: valid document rejected: " + normErr(s, serr), fmt.Sprintf("none of the four rejection conditions holds but UnmarshalJSONStrict returns %q", serr), ""})
		}
	}
	return out
}

func formatRank(f string) int {
	for i, x := range gschema.Formats {
		if x == f {
			return i
		}
	}
	return 9
}

func main() {
	r := vx.Start("C08")
	genrun.MaybeServe()
	r.PerKindSmallest = true
	installDefaultFlavours()
	schemas := enumerate(r.Thorough())
	if r.Replay != "" {
		_, witness, _ := r.ReplayFile()
		want := witness[strings.Index(witness, " :: ")+4:]
		var pick []gschema.Schema
		for _, s := range append(enumerate(true), enumerate(false)...) {
			if s.String() == want {
				pick = append(pick, s)
			}
		}
		if len(pick) == 0 {
			vx.Fatalf("replay: schema %q is not in the C08 enumeration", want)
		}
		schemas = pick[:1]
		fmt.Println("replaying", witness)
	}
	t0 := time.Now()
	ws := genrun.NewWorkspace("c08")
	defer ws.Close()
	prep, err := genrun.PrepareGo(ws, schemas, func(u *genrun.Unit) {
		u.Go = &genrun.GoOpts{JSONMarshaller: true, StrictUnmarshaller: true, Validate: true}
	}, nil, nil)
	if err != nil {
		ws.Close()
		vx.Fatalf("%v", err)
	}
	defer prep.Driver.Close()

	tPrep := time.Since(t0)
	t0 = time.Now()
	// document sets + reference verdicts, one goroutine per schema (each
	// schema owns its validators)
	plans := make([]*schemaPlan, len(schemas))
	{
		var wg sync.WaitGroup
		ch := make(chan int)
		for w := 0; w < runtime.NumCPU(); w++ {
			wg.Add(1)
			go func() {
				defer wg.Done()
				for i := range ch {
					plans[i] = plan(schemas[i], prep.Validators[i])
				}
			}()
		}
		for i := range schemas {
			ch <- i
		}
		close(ch)
		wg.Wait()
	}
	tPlan := time.Since(t0)
	t0 = time.Now()
	var disagreements []string
	crossChecked, excluded, bases := 0, 0, 0
	opCounts := map[string]int{}
	for _, p := range plans {
		disagreements = append(disagreements, p.Disagree...)
		crossChecked += p.CrossChecked
		excluded += p.Excluded
		bases += p.Bases
		for _, d := range p.Docs {
			opCounts[d.Op]++
		}
	}
	if len(disagreements) > 0 {
		// a bug of the reference evaluator, never a cog violation
		prep.Driver.Close()
		ws.Close()
		for i, d := range disagreements {
			if i < 15 {
				fmt.Fprintln(os.Stderr, "evaluator/validator disagreement:", d)
			}
		}
		vx.Fatalf("the reference evaluator disagrees with the reference validators on %d documents", len(disagreements))
	}

	samples := &vx.Samples{N: 8}
	counts := map[string]int{}
	bump := func(k string) { counts[k]++ }
	executions := 0
	distinctOutcomes := map[string]bool{}

	for _, c := range prep.Cases {
		switch {
		case c.Result.Status != "ok":
			// the statement does not promise that every construct is supported (that is C01/C04): allowed refusal
			bump("generation-" + c.Result.Status + "(not judged here)")
			continue
		case len(c.CompileErrs) > 0:
			bump("blocked_by=C02")
			continue
		case !c.InDriver:
			bump("no-package-generated(C01)")
			continue
		}
		vals := prep.Validators[c.Index]
		if _, ok := vals[c.Format]; !ok {
			bump("no-reference-validator")
			continue
		}
		bump("cases-judged")
		reported := map[string]bool{}
		fail := func(kind, what, doc, op string) {
			if reported[kind] {
				return
			}
			reported[kind] = true
			r.Fail(vx.Failure{
				Kind:    kind,
				Witness: c.Format + " :: " + c.Schema.String(),
				Size:    c.Schema.Size()*10 + formatRank(c.Format),
				Parents: genrun.CaseParents(c.Schema, c.Format),
				What:    fmt.Sprintf("%s schema %s, document %s (%s): %s", c.Format, c.Schema.String(), doc, op, what),
				Detail:  map[string]any{"format": c.Format, "schema": c.Schema.String(), "doc": doc, "fault": op, "input": c.Unit.Files},
			})
		}
		// pass 1: execute every document
		type exec struct {
			d     docPlan
			probs []problem
			resp  map[string]any
		}
		var execs []exec
		// untyped: positions at which the strict decoder accepts a value of a
		// wrong JSON type. Everything below such a position is necessarily
		// unchecked too; those derived failures are folded into the cause.
		var untyped []string
		acceptedTypes := map[string]map[string]bool{}
		for _, d := range plans[c.Index].Docs {
			if !d.Judged[c.Format] {
				bump("docs-own-validator-disagrees-with-evaluator(excluded)")
				continue
			}
			executions++
			resp, died := prep.Driver.Do(map[string]any{"op": "roundtrip", "type": c.RootType(), "doc": d.Doc})
			if died {
				fail("crash: generated code kills the process", "the generated code crashes the process (fatal error or hang)", d.Doc, d.Op)
				continue
			}
			if e, _ := resp["error"].(string); e != "" {
				bump("no-root-type(C01)")
				break
			}
			probs := judge(c.Schema, d, resp, bump)
			if has, _ := resp["has_strict"].(bool); has && resp["strict_err"] == nil && resp["strict_panic"] == nil {
				for _, f := range d.V.WrongType {
					if acceptedTypes[f.Path] == nil {
						acceptedTypes[f.Path] = map[string]bool{}
					}
					acceptedTypes[f.Path][f.What] = true
					if len(acceptedTypes[f.Path]) == 2 { // two different wrong JSON types accepted: the position is untyped
						untyped = append(untyped, f.Path)
					}
				}
			}
			execs = append(execs, exec{d, probs, resp})
			outcome := fmt.Sprintf("decode=%v validate=%v strict=%v", resp["decode_err"] == nil, resp["validate_err"] == nil, resp["strict_err"] == nil)
			distinctOutcomes[outcome] = true
		}
		// pass 2: report, folding failures below an untyped position
		for _, x := range execs {
			n := 0
			for _, p := range x.probs {
				derived := false
				for _, u := range untyped {
					if p.path != "" && under(p.path, u) {
						derived = true
					}
				}
				if derived {
					bump("failures-folded-below-an-untyped-position")
					continue
				}
				n++
				fail(p.kind, p.what, x.d.Doc, x.d.Op)
			}
			if n == 0 && x.d.Op != "valid" && c.Index%40 == 7 && len(samples.L) <= c.Index/40 {
				samples.Add(map[string]any{"format": c.Format, "schema": c.Schema.String(), "document": x.d.Doc, "fault": x.d.Op + " @ " + x.d.Class, "validate_err": x.resp["validate_err"], "strict_err": x.resp["strict_err"]})
			}
		}
	}
	sorted := func(m map[string]int) []string {
		var out []string
		for k, v := range m {
			out = append(out, fmt.Sprintf("%s=%d", k, v))
		}
		sort.Strings(out)
		return out
	}
	skipped := sorted(prep.Skipped)
	fmt.Printf("phases: generate+compile+link=%.0fs documents+evaluator+validators=%.0fs execute+judge=%.0fs\n", tPrep.Seconds(), tPlan.Seconds(), time.Since(t0).Seconds())
	prep.Driver.Close()
	ws.Close()
	if r.Replay != "" {
		kind, witness, _ := r.ReplayFile()
		hit := false
		for _, f := range r.Frontier() {
			fmt.Println("  ", f.Kind, "@", f.Witness, "\n     ", f.What)
			if f.Kind == kind && f.Witness == witness {
				hit = true
			}
		}
		if hit {
			fmt.Printf("VIOLATION property=C08 replay=%s\n", r.Replay)
			os.Exit(1)
		}
		fmt.Println("replay: the recorded failure does not occur on this tree")
		os.Exit(0)
	}
	totalDocs := 0
	for _, p := range plans {
		totalDocs += len(p.Docs)
	}
	r.Finish(map[string]any{
		"states":                        len(prep.Cases),
		"transitions":                   executions + len(prep.Cases),
		"traces_validated_against_impl": executions + len(prep.Cases),
		"samples":                       samples.L,
		"exhaustive":                    true,
		"abstract_schemas":              len(schemas),
		"schema_format_cases":           len(prep.Cases),
		"valid_base_documents":          bases,
		"documents_per_schema_total":    totalDocs,
		"documents_per_fault_operator":  sorted(opCounts),
		"driver_executions":             executions,
		"counts_per_clause":             sorted(counts),
		"evaluator_vs_validators_cross_checked_documents": crossChecked,
		"evaluator_vs_validators_disagreements":           0,
		"documents_excluded_own_validator_disagrees":      excluded,
		"formats_skipped":                                 skipped,
		"distinct_outcomes":                               len(distinctOutcomes),
		"explanation":                                     "constraint-bearing schemas of grammar G (constrained scalar at every position up to the tier's depth) + plain schemas for the strict clauses, rendered in every format, generated by the real pipeline (Go: json marshaller, strict unmarshaller, validate), compiled and linked into one driver; every valid alphabet document and every single-fault document (all positions x all operators) is decoded, validated and strictly decoded by the generated code and compared with the reference evaluator, which is itself cross-checked against santhosh-tekuri/kin-openapi/cue on every document",
	}, []string{
		"error wording and the order of several errors are free; a reported path may carry extra segments (union branch selector) as long as the expected segments appear in order and it ends with the offending field/index",
		"Validate() is judged on the value obtained by json.Unmarshal and only where the document determines that value: valid documents, constraint faults, unknown keys, null for optional fields; after a missing/null required field or a wrong type only panics count",
		"null for an optional, element or map-value position that is not nullable, enum non-members, constant mismatches and unknown discriminator values are outside the four strict conditions: strict verdict unjudged",
		"a number with a fraction for an integer type counts as a wrong JSON type (JSON Schema `integer`)",
		"a document is judged in a format only if that format's own reference validator agrees with the evaluator on its validity (except an absent required field with default, which is the clause under test); a disagreement while all validators agree among themselves is a harness error; packages that do not compile are blocked_by=C02; generation refusals are not judged here",
	})
}
