//go:build verif

// C10: default constructors yield the schema's defaults and constants in Go
// and in Python. DESIGN.md §6 C10.
//
// Enumerated: the part of grammar G whose fields declare a default (bool,
// integer, float, string, enum member (anonymous and referenced), list, struct
// with partial / complete overrides, union branch) or are constants (string,
// int, bool, float, reference to a constant object, constant reference to an
// enum member), required and optional, x the three input formats. ONE real
// pipeline run per case generates Go {json marshaller} and Python {json
// marshaller}; for every struct object of the schema the generated default
// constructor is called in both languages (Go: New<Object>() + json.Marshal,
// Python: <Object>() + json.dumps(cls=JSONEncoder)).
//
// Oracle clauses (statement sentences in quotes):
//   <lang>-default-{dropped,retyped,altered}   "each field with a declared default holds exactly that default …
//                                               never altered, re-typed or dropped"
//   <lang>-constant-{dropped,retyped,altered}  "each constant field holds its constant"
//   <lang>-ctor-{raises,panics,missing}, <lang>-output-not-json
//                                              "the value produced by the generated default constructor … encodes to JSON"
//   go-vs-python-differ                        "The two languages agree with each other on those fields"
//        (only reported when not already implied by one of the clauses above)
// One failure is reported per field: its kind says which language(s) deviate
// and how (dropped / retyped / altered + the JSON kinds involved), the value
// type of the declared default, and the first input format that shows it.
// Scope: a default is judged only if the source schema's own reference
// validator accepts {field: default} for a schema holding just that field
// ("a default that the source schema itself accepts"). A `default` written
// beside a `$ref` in JSON Schema draft-07 / OpenAPI 3.0 is not a declared
// default at all (both specifications ignore siblings of $ref): out of scope.
// Leniences: numbers exact, key order free; fields WITHOUT a declared
// default/constant are never compared; for a struct default only the members
// the default names are compared (what the remaining members hold is not
// stated). Preconditions counted, not failed: generation failure (C01/C04),
// Go package that does not compile / Python module that does not import
// (blocked_by=C02, the other language is still judged).
package main

import (
	"encoding/json"
	"fmt"
	"os"
	"regexp"
	"sort"
	"strings"

	"github.com/grafana/cog/verifx/genrun"
	"github.com/grafana/cog/verifx/gschema"
	"github.com/grafana/cog/verifx/irgen"
	"github.com/grafana/cog/verifx/vx"
)

var (
	reQuoted = regexp.MustCompile(`"[^"]*"|'[^']*'`)
	reDigits = regexp.MustCompile(`[0-9]+`)
	reIDs    = regexp.MustCompile(`s[0-9]{4}[joc]`)
)

func normDiag(s string) string {
	s = reIDs.ReplaceAllString(s, "<id>")
	s = reQuoted.ReplaceAllString(s, `"…"`)
	s = reDigits.ReplaceAllString(s, "N")
	if len(s) > 140 {
		s = s[:140]
	}
	return strings.TrimSpace(s)
}

func formatRank(f string) int {
	for i, x := range gschema.Formats {
		if x == f {
			return i
		}
	}
	return 9
}

// typeClass names a field type including the flavour of its default.
func typeClass(t Term) string {
	s := ""
	switch t.K {
	case "scalar":
		s = t.A
		if t.Constr {
			s += "[c]"
		}
	case "array", "map":
		s = t.K + " of " + typeClass(t.Sub[len(t.Sub)-1])
	case "struct":
		var p []string
		for i, f := range t.Fields {
			q := ""
			if !f.Required {
				q = "?"
			}
			p = append(p, f.Name+q+":"+typeClass(t.Sub[i]))
		}
		s = "{" + strings.Join(p, ",") + "}"
	case "disj":
		var p []string
		for _, b := range t.Sub {
			p = append(p, typeClass(b))
		}
		s = "(" + strings.Join(p, "|") + ")"
		if t.Disc {
			s += "@disc"
		}
	default:
		s = t.K + "(" + t.A + ")"
	}
	if t.Nullable {
		s += "?"
	}
	if t.Default != "" {
		s += "=default:" + t.Default
	}
	return s
}

// valueType is the value type of a declared default / constant at the
// granularity of the property's quantifier (bool, integer, float, string, enum
// member, list, struct with partial overrides, union branch, constants); it is
// the part of the failure kind that identifies WHAT was declared.
func valueType(s Schema, t Term) string {
	out := ""
	switch t.K {
	case "scalar":
		switch {
		case t.A == "bool" || t.A == "string" || t.A == "any":
			out = t.A
		case t.A == "datetime":
			out = "date-time string"
		case strings.HasPrefix(t.A, "float"):
			out = "float"
		default:
			out = "integer"
		}
	case "const":
		out = "constant " + map[string]string{"str": "string", "int": "integer", "bool": "bool", "float": "float"}[t.A]
		if strings.HasPrefix(t.A, "disc:") {
			out = "constant string"
		}
		if lit := strings.TrimPrefix(t.A, "num:"); lit != t.A {
			out = "constant number " + boundaryName[lit]
		}
	case "constref":
		out = "constant reference to an enum member"
	case "enum":
		out = map[string]string{"str": "string", "int": "integer", "big": "integer (beyond 2^53)"}[t.A] + " enum member"
	case "ref":
		target, _ := s.Lookup(refTarget(t))
		switch target.K {
		case "enum":
			out = map[string]string{"str": "string", "int": "integer", "big": "integer (beyond 2^53)"}[target.A] + " enum member through a reference"
			if t.Default == "refand" {
				out += " (E & (*m | _))"
			} else {
				out += " (E | *m)"
			}
		case "const":
			out = "reference to a constant"
		case "scalar":
			out = "reference to a named " + target.A
		default:
			out = "referenced struct, " + map[string]string{"struct": "partial", "struct2": "partial", "structfull": "complete", "nest1": "partial (over a struct with its own struct default)", "nest2": "partial"}[t.Default] + " default"
		}
	case "array":
		out = "list of " + valueType(s, t.Sub[0])
		if t.Default == "elist" {
			out = "empty list"
		}
	case "map":
		out = "map"
	case "struct":
		out = "inline struct, " + map[string]string{"struct": "partial", "struct2": "partial", "structfull": "complete", "nest1": "partial (over a struct with its own struct default)", "nest2": "partial"}[t.Default] + " default"
	case "disj":
		if t.Disc {
			out = "discriminated union branch, " + map[string]string{"struct": "partial", "struct2": "partial", "structfull": "complete", "nest1": "partial (over a struct with its own struct default)", "nest2": "partial"}[t.Default] + " default"
		} else {
			which := "first"
			if t.Default == "branch2" {
				which = "second"
			}
			out = which + " branch of (" + valueType(s, t.Sub[0]) + "|" + valueType(s, t.Sub[1]) + ")"
		}
	}
	if t.Default == "emap" || t.Default == "estruct" {
		out = map[string]string{"map": "map", "struct": "inline struct", "ref": "referenced struct"}[t.K] + " = {}"
	}
	if t.Nullable {
		out = "nullable " + out
	}
	return out
}

// expectation is one field whose constructor value the statement pins down.
type expectation struct {
	Object   string   // named object whose constructor is called
	Path     []string // member path inside the constructor's JSON (len 1, or 2+ through required inline structs)
	T        Term
	Required bool
	Constant bool
	Want     any // JSON value (json.Number for numbers)
	// ViaPass names the schema transformation that declares the default ("" = the source schema itself)
	ViaPass string
	// S is the schema (package) the object belongs to; Object is "q/<name>" for an
	// object of the unit's second package
	S Schema
	// Note refines the value type in the failure kind (position of the constant in a `const | type` union)
	Note string
}

func (e expectation) pos() string {
	if e.Required {
		return "required"
	}
	return "optional"
}

// constantOf returns the constant a field of type t must hold, if t is a constant.
func constantOf(s Schema, t Term) (any, bool) {
	switch t.K {
	case "const":
		switch t.A {
		case "str":
			return "k", true
		case "int":
			return json.Number("7"), true
		case "bool":
			return true, true
		case "float":
			return json.Number("1.5"), true
		}
		if strings.HasPrefix(t.A, "disc:") {
			return strings.TrimPrefix(t.A, "disc:"), true
		}
		if strings.HasPrefix(t.A, "num:") {
			return json.Number(strings.TrimPrefix(t.A, "num:")), true
		}
	case "constref":
		return "a", true // gschema renders a constant reference as `E & "a"`
	case "ref":
		if target, ok := s.Lookup(refTarget(t)); ok && target.K == "const" {
			return constantOf(s, target)
		}
	}
	return nil, false
}

// expectations lists the declared fields of a case: the objects of its schema
// (package p) and, for a unit that holds a second package, the objects of that package.
func expectations(s Schema) []expectation {
	pi, hasPass := passOf(s)
	out := expectationsIn(pi, hasPass, s, gschema.Pkg)
	if hasPass && pi.Second != nil {
		for _, e := range expectationsIn(pi, hasPass, *pi.Second, secondPkg) {
			e.Object = secondPkg + "/" + e.Object
			out = append(out, e)
		}
	}
	return out
}

func expectationsIn(pi passInfo, hasPass bool, s Schema, pkg string) []expectation {
	var out []expectation
	var fields func(obj string, path []string, t Term)
	fields = func(obj string, path []string, t Term) {
		for i, f := range t.Fields {
			ft := t.Sub[i]
			p := append(append([]string{}, path...), f.Name)
			if c, ok := constantOf(s, ft); ok && !ft.Nullable {
				out = append(out, expectation{Object: obj, Path: p, T: ft, Required: f.Required, Constant: true, Want: c})
				continue
			}
			if ft.Default != "" {
				out = append(out, expectation{Object: obj, Path: p, T: ft, Required: f.Required, Want: s.DefaultValue(ft)})
				continue
			}
			if hasPass && len(path) == 0 {
				// disjunction_with_constant_to_default: "`type | constant` becomes `type` with the constant as default"
				if pi.ConstDisj && obj == "Root" && ft.K == "disj" && len(ft.Sub) == 2 {
					for bi, b := range ft.Sub {
						if c, isConst := constantOf(s, b); isConst {
							note := "constant listed last"
							if bi == 0 {
								note = "constant listed first"
							}
							out = append(out, expectation{Object: obj, Path: p, T: ft, Required: f.Required, Want: c, ViaPass: pi.Name, Note: note})
						}
					}
					continue
				}
				// fields_set_default: "sets the default value for the given fields"
				if v, set := pi.SetDefaults[pkg+"."+obj+"."+f.Name]; set {
					out = append(out, expectation{Object: obj, Path: p, T: ft, Required: f.Required, Want: v, ViaPass: pi.Name})
					continue
				}
			}
			if ft.K == "struct" && f.Required && !ft.Nullable {
				// a required inline struct is part of its parent's value
				fields(obj, p, ft)
			}
		}
	}
	for _, o := range s.Objs {
		if o.T.K == "struct" {
			fields(o.Name, nil, o.T)
		}
	}
	for i := range out {
		out[i].S = s
	}
	return out
}

// ---- scope: does the source schema accept the default? ------------------------------------

var scopeCache = map[string]bool{}

// inScope reports whether format's own reference validator accepts
// {f: default} for a schema holding just that field (plus the objects it references).
func inScope(s Schema, e expectation, format string) (ok bool, why string) {
	if e.Constant && e.T.K == "const" && e.T.A == "num:"+maxUint64 && format != "cue" {
		// only CUE has an unsigned 64-bit type; JSON Schema integers are mapped to int64, which cannot hold it
		return false, "MaxUint64 constant outside CUE (no unsigned type to hold it)"
	}
	if e.Constant {
		if format == "openapi" {
			// OpenAPI 3.0 has no `const`; gschema renders discriminator constants as a
			// single-member enum, which declares an enum, not a constant
			return false, "OpenAPI 3.0 cannot declare a constant (single-member enum)"
		}
		return true, ""
	}
	if e.T.Default == "elist" && format == "cue" {
		// in CUE every open list `[...T]` already has the default `[]`, so `| *[]` declares nothing new
		return false, "CUE: an empty-list default is what every open list already has"
	}
	if e.T.K == "ref" && format != "cue" && e.ViaPass == "" {
		return false, "default beside $ref (ignored by draft-07 / OpenAPI 3.0)"
	}
	objs := []Obj{{Name: "Root", T: irgen.Struct1("f", true, e.T)}}
	for _, o := range s.Objs {
		if o.Name != "Root" {
			objs = append(objs, o)
		}
	}
	iso := Schema{Objs: objs}
	key := format + " :: " + iso.String()
	if v, ok := scopeCache[key]; ok {
		return v, "the source schema rejects its own default"
	}
	vals, _ := iso.Validators()
	v, have := vals[format]
	res := false
	if have {
		b, _ := json.Marshal(map[string]any{"f": e.Want})
		res = v(string(b))
	}
	scopeCache[key] = res
	return res, "the source schema rejects its own default"
}

// ---- comparison ---------------------------------------------------------------------------

func jsonKind(v any) string {
	switch v.(type) {
	case nil:
		return "null"
	case map[string]any:
		return "object"
	case []any:
		return "array"
	case string:
		return "string"
	case bool:
		return "bool"
	}
	return "number"
}

func canon(v any) string {
	b, _ := json.Marshal(v)
	c, err := gschema.CanonJSON(string(b))
	if err != nil {
		return string(b)
	}
	return c
}

func sortedKeys(m map[string]any) []string {
	ks := make([]string, 0, len(m))
	for k := range m {
		ks = append(ks, k)
	}
	sort.Strings(ks)
	return ks
}

// deviation compares the value found (present=false: member absent) with the
// declared one. how is "" (holds), "dropped", "retyped" or "altered"; detail
// names the JSON kinds involved. For object-valued defaults only the members
// the default names are compared.
func deviation(want, got any, present bool) (how, detail string) {
	if !present {
		return "dropped", jsonKind(want) + " absent"
	}
	if jsonKind(want) != jsonKind(got) {
		return "retyped", jsonKind(want) + " became " + jsonKind(got)
	}
	if wm, ok := want.(map[string]any); ok {
		gm := got.(map[string]any)
		for _, k := range sortedKeys(wm) {
			gv, has := gm[k]
			if h, d := deviation(wm[k], gv, has); h != "" {
				return h, "member of the struct default: " + d
			}
		}
		return "", ""
	}
	if canon(want) != canon(got) {
		d := jsonKind(want) + " value changed"
		if wa, ok := want.([]any); ok {
			ga := got.([]any)
			switch {
			case len(ga) == 0:
				d = "array became empty"
			case len(wa) != len(ga):
				d = "array length changed"
			default:
				for i := range wa {
					if h, dd := deviation(wa[i], ga[i], true); h != "" {
						d = "array item " + h + ": " + dd
						break
					}
				}
			}
		}
		return "altered", d
	}
	return "", ""
}

func lookupPath(doc any, path []string) (any, bool) {
	cur := doc
	for _, p := range path {
		m, ok := cur.(map[string]any)
		if !ok {
			return nil, false
		}
		cur, ok = m[p]
		if !ok {
			return nil, false
		}
	}
	return cur, true
}

func decode(text string) (any, error) {
	dec := json.NewDecoder(strings.NewReader(text))
	dec.UseNumber()
	var v any
	if err := dec.Decode(&v); err != nil {
		return nil, err
	}
	return v, nil
}

// restrict keeps, of an object-valued got, only the members want names (recursively).
func restrict(want, got any) any {
	wm, ok := want.(map[string]any)
	gm, ok2 := got.(map[string]any)
	if !ok || !ok2 {
		return got
	}
	out := map[string]any{}
	for k, w := range wm {
		if g, has := gm[k]; has {
			out[k] = restrict(w, g)
		}
	}
	return out
}

func suffixed(l []string, suffix string) []string {
	if suffix == "" {
		return l
	}
	out := make([]string, len(l))
	for i, x := range l {
		out[i] = x + suffix
	}
	return out
}

// structTarget resolves a field type to the struct its values are instances of.
func structTarget(s Schema, t Term) (Term, bool) {
	switch t.K {
	case "struct":
		return t, true
	case "ref":
		if target, ok := s.Lookup(refTarget(t)); ok && target.K == "struct" {
			return target, true
		}
	}
	return Term{}, false
}

// ---- main ---------------------------------------------------------------------------------

type ctorResult struct {
	blocked string // non-empty: precondition failed (counted)
	failure string // clause suffix for a constructor-level failure
	diag    string
	text    string
	doc     any
}

func main() {
	r := vx.Start("C10")
	genrun.MaybeServe()
	r.PerKindSmallest = true
	installHooks()
	schemas := c10Schemas(r.Thorough())
	if r.Replay != "" {
		_, witness, _ := r.ReplayFile()
		want := witness[strings.Index(witness, " :: ")+4:]
		if i := strings.Index(want, " +pass:"); i >= 0 {
			want = want[:i]
		}
		var pick []Schema
		for _, s := range c10Schemas(true) {
			if s.String() == want {
				pick = append(pick, s)
			}
		}
		if len(pick) == 0 {
			vx.Fatalf("replay: schema %q is not in C10's schema set", want)
		}
		schemas = pick[:1]
		fmt.Println("replaying", witness)
	}
	ws := genrun.NewWorkspace("c10")
	defer ws.Close()
	prep, err := genrun.PrepareGo(ws, schemas, func(u *genrun.Unit) {
		u.Go = &genrun.GoOpts{JSONMarshaller: true}
		u.Python, u.PythonJSON = true, true
		// unit ids are s<schema index><format letter>: schemas that declare defaults
		// through a transformation get that pass enabled (transformations.schemas)
		var idx int
		if _, err := fmt.Sscanf(u.ID, "s%04d", &idx); err == nil && idx < len(schemas) {
			if pi, ok := passOf(schemas[idx]); ok {
				u.PassesYAML = pi.YAML
				if pi.Second != nil {
					// the unit holds a second package with the same object and field names
					format := map[byte]string{'j': "jsonschema", 'o': "openapi", 'c': "cue"}[u.ID[len(u.ID)-1]]
					if r, err := pi.Second.Render(format); err == nil {
						toQ := strings.NewReplacer("p.json", secondPkg+".json", "p/schema.cue", secondPkg+"/schema.cue", "package p\n", "package "+secondPkg+"\n",
							"package: p}", "package: "+secondPkg+"}", "%DIR%/p'", "%DIR%/"+secondPkg+"'")
						files := map[string]string{}
						for name, content := range u.Files {
							files[name] = content
						}
						for name, content := range r.Files {
							files[toQ.Replace(name)] = toQ.Replace(content)
						}
						u.Files = files
						u.InputYAML += "\n  " + toQ.Replace(r.InputYAML)
						u.ExtraPkgs = []string{secondPkg}
					}
				}
			}
		}
	}, nil, nil)
	if err != nil {
		ws.Close()
		vx.Fatalf("%v", err)
	}
	defer prep.Driver.Close()
	py := ws.StartPython()
	defer py.Close()

	samples := &vx.Samples{N: 8}
	counts := map[string]int{}
	bump := func(k string) { counts[k]++ }
	executions := 0
	distinct := map[string]bool{}
	states := map[string]bool{}
	genFailures := []string{}
	seenBase := map[string]string{}

	for _, c := range prep.Cases {
		c := c
		if c.Result.Status != "ok" {
			bump("generation-" + c.Result.Status + " (not judged here): " + normDiag(c.Result.Err))
			genFailures = append(genFailures, c.Format+" :: "+c.Schema.String()+" : "+c.Result.Status+" "+normDiag(c.Result.Err+" "+c.Result.PanicSite))
			continue
		}
		exps := expectations(c.Schema)
		if len(exps) == 0 {
			bump("cases-without-declared-fields")
			continue
		}
		bump("cases-judged")
		fail := func(e expectation, clause, diag, what string, extra map[string]any) {
			base := clause
			if diag != "" {
				base += ": " + diag
			}
			vt := valueType(e.S, e.T)
			if e.ViaPass != "" {
				if e.Note != "" {
					vt = valueType(e.S, e.T.Sub[0]) + "|" + valueType(e.S, e.T.Sub[1]) + ", " + e.Note
				}
				vt += " (declared through " + e.ViaPass + ")"
			}
			// which VALUE was declared matters only where the value itself is what goes wrong:
			// a zero value that is dropped/nulled, a boundary number that is altered. The
			// json.Number re-typing (number became string) is one defect whatever the value.
			if !strings.Contains(diag, "number became string") {
				switch {
				case e.T.Default == "zero":
					vt += " = zero value"
				case strings.HasPrefix(e.T.Default, "big:") && strings.Contains(diag, "altered"):
					vt += " = " + boundaryName[strings.TrimPrefix(e.T.Default, "big:")]
				}
			}
			base += " @ " + e.pos() + " " + vt
			bump("fail:" + clause)
			// The same schema failing the same way in an earlier format is one
			// finding, reported there; the kind names the first format that shows it,
			// so a defect of one front-end cannot hide behind another front-end's.
			sk := c.Schema.String() + " | " + base
			if first, ok := seenBase[sk]; ok && first != c.Format {
				bump("same failure already reported in an earlier format (fields)")
				return
			}
			seenBase[sk] = c.Format
			kind := base + " [" + c.Format + "]"
			detail := map[string]any{"format": c.Format, "schema": c.Schema.String(), "object": e.Object, "path": e.Path, "want": e.Want, "input": c.Unit.Files}
			for k, v := range extra {
				detail[k] = v
			}
			r.Fail(vx.Failure{
				Kind:    kind,
				Witness: c.Format + " :: " + c.Schema.String() + witnessSuffix(c.Schema),
				Size:    c.Schema.Size()*10 + formatRank(c.Format),
				Parents: suffixed(genrun.CaseParents(c.Schema, c.Format), witnessSuffix(c.Schema)),
				What:    fmt.Sprintf("%s schema %s, object %s field %s (declared %s): %s", c.Format, c.Schema.String(), e.Object, strings.Join(e.Path, "."), vx.JSON(e.Want), what),
				Detail:  detail,
			})
		}

		// one constructor call per object and language
		goRes, pyRes := map[string]*ctorResult{}, map[string]*ctorResult{}
		goCtor := func(obj string) *ctorResult {
			if x, ok := goRes[obj]; ok {
				return x
			}
			x := &ctorResult{}
			goRes[obj] = x
			if len(c.CompileErrs) > 0 {
				x.blocked = "go blocked_by=C02 (package does not compile)"
				return x
			}
			if !c.InDriver {
				x.blocked = "go: no package generated (C01's)"
				return x
			}
			executions++
			typ := c.Unit.ID + "." + obj
			if pkg, name, second := strings.Cut(obj, "/"); second {
				if len(c.Unit.ExtraPkgs) == 0 {
					x.blocked = "second package not expressible in this format"
					return x
				}
				typ = c.Unit.ID + "/" + pkg + "." + name
			}
			resp, died := prep.Driver.Do(map[string]any{"op": "default", "type": typ})
			switch {
			case died:
				x.failure, x.diag = "go-ctor-crashes", "the constructor kills the process"
			case resp["error"] != nil:
				x.failure, x.diag = "go-ctor-missing", normDiag(fmt.Sprint(resp["error"]))
			case resp["ctor_panic"] != nil:
				x.failure, x.diag = "go-ctor-panics", normDiag(fmt.Sprint(resp["ctor_panic"]))
			case resp["encode_err"] != nil:
				x.failure, x.diag = "go-encode-error", normDiag(fmt.Sprint(resp["encode_err"]))
			default:
				x.text, _ = resp["json"].(string)
				d, err := decode(x.text)
				if err != nil {
					x.failure, x.diag = "go-output-not-json", ""
				}
				x.doc = d
			}
			return x
		}
		pyImport := ""
		pyChecked := false
		pyCtor := func(obj string) *ctorResult {
			if x, ok := pyRes[obj]; ok {
				return x
			}
			x := &ctorResult{}
			pyRes[obj] = x
			if !pyChecked {
				pyChecked = true
				executions++
				imp, died := py.Do(map[string]any{"op": "import", "unit": c.Unit.ID, "pkg": gschema.Pkg})
				if died {
					pyImport = "python blocked_by=C02 (importing the module kills the interpreter)"
				} else if t, m, bad := genrun.PyExc(imp, "import_error"); bad {
					pyImport = "python blocked_by=C02 (module does not import)"
					bump("python-import-error: " + normDiag(t+": "+m))
				}
			}
			if pyImport != "" {
				x.blocked = pyImport
				return x
			}
			executions++
			pkg, class := gschema.Pkg, obj
			if q, name, second := strings.Cut(obj, "/"); second {
				if len(c.Unit.ExtraPkgs) == 0 {
					x.blocked = "second package not expressible in this format"
					return x
				}
				pkg, class = q, name
			}
			resp, died := py.Do(map[string]any{"op": "default", "unit": c.Unit.ID, "pkg": pkg, "class": class})
			switch {
			case resp != nil && resp["import_error"] != nil:
				x.blocked = "python blocked_by=C02 (module does not import)"
			case died:
				x.failure, x.diag = "python-ctor-crashes", "the constructor kills the interpreter"
			case resp["error"] != nil:
				x.failure, x.diag = "python-ctor-missing", normDiag(fmt.Sprint(resp["error"]))
			default:
				if t, m, bad := genrun.PyExc(resp, "ctor_exc"); bad {
					x.failure, x.diag = "python-ctor-raises", normDiag(t+": "+m)
				} else if t, m, bad := genrun.PyExc(resp, "encode_exc"); bad {
					x.failure, x.diag = "python-encode-error", normDiag(t+": "+m)
				} else {
					x.text, _ = resp["json"].(string)
					d, err := decode(x.text)
					if err != nil {
						x.failure, x.diag = "python-output-not-json", ""
					}
					x.doc = d
				}
			}
			return x
		}

		for _, e := range exps {
			label := "default"
			if e.Constant {
				label = "constant"
			}
			states[c.Format+" :: "+c.Schema.String()+" :: "+e.Object+"."+strings.Join(e.Path, ".")] = true
			if ok, why := inScope(e.S, e, c.Format); !ok {
				bump("out-of-scope: " + why)
				continue
			}
			bump("fields-judged: " + label + " " + jsonKind(e.Want))
			type obs struct {
				have    bool // constructor produced JSON
				present bool
				val     any
				how     string
				detail  string
				text    string
			}
			judge := func(lang string, res *ctorResult) obs {
				var o obs
				if res.blocked != "" {
					bump(res.blocked + " (fields)")
					return o
				}
				if res.failure != "" {
					fail(e, res.failure, res.diag, fmt.Sprintf("the %s default constructor of %s cannot be used: %s %s", lang, e.Object, res.failure, res.diag), nil)
					distinct[lang+":"+res.failure] = true
					return o
				}
				o.have, o.text = true, res.text
				o.val, o.present = lookupPath(res.doc, e.Path)
				o.how, o.detail = deviation(e.Want, o.val, o.present)
				distinct[lang+":"+label+":"+o.how] = true
				if e.ViaPass != "" {
					res := "holds"
					if o.how != "" {
						res = o.how
					}
					bump("via " + e.ViaPass + " [" + c.Format + "] " + e.Note + ": " + lang + " " + res)
				}
				if o.how == "" {
					bump("holds: " + lang + " " + label)
				} else {
					bump("deviates: " + lang + " " + label + " " + o.how)
				}
				return o
			}
			g := judge("go", goCtor(e.Object))
			p := judge("python", pyCtor(e.Object))
			// one failure per field: the kind says which language(s) deviate and how
			if g.how != "" || p.how != "" {
				var parts, texts []string
				extra := map[string]any{}
				if g.how != "" && p.how != "" && g.how == p.how && g.detail == p.detail {
					parts = append(parts, "go+python "+g.how+" ("+g.detail+")")
				} else {
					if g.how != "" {
						parts = append(parts, "go "+g.how+" ("+g.detail+")")
					}
					if p.how != "" {
						parts = append(parts, "python "+p.how+" ("+p.detail+")")
					}
				}
				if g.have {
					texts = append(texts, "Go New"+e.Object+"() encodes to "+g.text)
					extra["go"] = g.text
				}
				if p.have {
					texts = append(texts, "Python "+e.Object+"() encodes to "+p.text)
					extra["python"] = p.text
				}
				fail(e, label, strings.Join(parts, "; "), strings.Join(texts, "; "), extra)
			}
			if g.have && p.have {
				bump("go-vs-python compared (fields)")
				gv, pv := restrict(e.Want, g.val), restrict(e.Want, p.val)
				same := g.present == p.present && (!g.present || canon(gv) == canon(pv))
				switch {
				case same:
				case g.how != "" || p.how != "":
					bump("go-vs-python differ, implied by a clause above (fields)")
				default:
					_, d := deviation(gv, pv, p.present)
					fail(e, "go-vs-python-differ", d, fmt.Sprintf("Go encodes %s and Python encodes %s", g.text, p.text), map[string]any{"go": g.text, "python": p.text})
				}
				// Fields of the struct a struct default instantiates that carry their own
				// declared default/constant and are not named by the override: the statement
				// does not say what they hold, but "the two languages agree with each other
				// on those fields" applies to them as to any field with a declared default.
				if tt, ok := structTarget(e.S, e.T); ok && !e.Constant && g.present && p.present {
					named, _ := e.Want.(map[string]any)
					gdoc, pdoc := goCtor(e.Object).doc, pyCtor(e.Object).doc
					var nested func(tt Term, path []string, named map[string]any, depth int)
					nested = func(tt Term, path []string, named map[string]any, depth int) {
						for i, f := range tt.Fields {
							if _, overridden := named[f.Name]; overridden {
								continue
							}
							ft := tt.Sub[i]
							var want any
							if cst, isConst := constantOf(e.S, ft); isConst && !ft.Nullable {
								want = cst
							} else if ft.Default != "" {
								want = e.S.DefaultValue(ft)
							} else {
								continue
							}
							np := append(append([]string{}, path...), f.Name)
							gv, gok := lookupPath(gdoc, np)
							pv, pok := lookupPath(pdoc, np)
							bump("go-vs-python compared (nested declared fields)")
							if gok != pok || gok && canon(restrict(want, gv)) != canon(restrict(want, pv)) {
								gh, gd := deviation(want, gv, gok)
								ph, pd := deviation(want, pv, pok)
								if gh == "" {
									gh, gd = "holds the nested declared default", ""
								}
								if ph == "" {
									ph, pd = "holds the nested declared default", ""
								}
								ne := expectation{Object: e.Object, Path: np, T: ft, Required: f.Required, Want: want, S: e.S}
								fail(ne, "go-vs-python-differ", strings.TrimSpace("nested in a struct default: go "+gh+" "+gd+"; python "+ph+" "+pd), fmt.Sprintf("inside the struct default of %s: Go New%s() encodes to %s; Python %s() encodes to %s", strings.Join(e.Path, "."), e.Object, g.text, e.Object, p.text), map[string]any{"go": g.text, "python": p.text})
								continue
							}
							if nt, ok := structTarget(e.S, ft); ok && depth > 0 {
								nm, _ := want.(map[string]any)
								nested(nt, np, nm, depth-1)
							}
						}
					}
					nested(tt, e.Path, named, 2)
				}
				if g.how == "" && p.how == "" && same {
					samples.Add(map[string]any{"format": c.Format, "schema": c.Schema.String(), "object": e.Object, "field": strings.Join(e.Path, "."), "declared": e.Want, "go": g.text, "python": p.text})
				}
			}
		}
	}
	var cnt []string
	for k, v := range counts {
		cnt = append(cnt, fmt.Sprintf("%s=%d", k, v))
	}
	sort.Strings(cnt)
	var skipped []string
	for f, n := range prep.Skipped {
		skipped = append(skipped, fmt.Sprintf("%s=%d", f, n))
	}
	sort.Strings(skipped)
	py.Close()
	prep.Driver.Close()
	ws.Close()
	if r.Replay != "" {
		kind, witness, _ := r.ReplayFile()
		hit := false
		for _, f := range r.Frontier() {
			fmt.Println("  ", f.Kind, "@", f.Witness, "\n     ", f.What)
			if f.Kind == kind && f.Witness == witness {
				hit = true
			}
		}
		if hit {
			fmt.Printf("VIOLATION property=C10 replay=%s\n", r.Replay)
			os.Exit(1)
		}
		fmt.Println("replay: the recorded failure does not occur on this tree")
		os.Exit(0)
	}
	var dist []string
	for k := range distinct {
		dist = append(dist, k)
	}
	sort.Strings(dist)
	r.Finish(map[string]any{
		"states":                        len(states),
		"transitions":                   executions + len(prep.Cases),
		"traces_validated_against_impl": executions + len(prep.Cases),
		"samples":                       samples.L,
		"exhaustive":                    true,
		"abstract_schemas":              len(schemas),
		"schema_format_cases":           len(prep.Cases),
		"counts":                        cnt,
		"formats_skipped":               skipped,
		"distinct_outcomes":             dist,
		"generation_failures":           genFailures,
		"explanation":                   "states = (format, schema, object, field) with a declared default or constant; transitions = pipeline runs + constructor calls (Go New<Object>()+json.Marshal through the linked driver, Python <Object>()+json.dumps(cls=JSONEncoder) in one interpreter); the schema set of the tier is enumerated completely",
	}, []string{
		"numbers compared as exact rationals, key order free; fields without a declared default/constant are not compared; for struct defaults only the members the default names are compared",
		"a default is judged only when the source format's own reference validator accepts {field: default}; a default beside $ref in JSON Schema/OpenAPI is not a declared default (siblings of $ref are ignored by both specifications)",
		"generation failures are C01/C04's; a Go package that does not compile or a Python module that does not import is blocked_by=C02 (the other language is still judged)",
	})
}
