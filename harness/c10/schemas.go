//go:build verif

package main

import (
	"encoding/json"
	"sort"
	"strings"

	"github.com/grafana/cog/verifx/gschema"
	"github.com/grafana/cog/verifx/irgen"
)

// The part of grammar G that C10 enumerates: objects whose fields declare a
// default or are constants. Default flavours (Term.Default) beyond gschema's
// "scalar" | "list" | "map" are added here through gschema's hooks:
//
//	refand      reference to an enum with a default, CUE idiom `E & (*"b" | _)` (the
//	            one cog's own test data uses); "scalar" on a reference is the other
//	            CUE idiom `E | *"b"`
//	ilist       [1, 2] (list of integers);  elist  [] (empty list)
//	branch2     a union default taken from the SECOND branch (true / 2 / ["x","y"])
//	struct      struct default giving only SOME members ("partial override")
//	structfull  struct default giving every member
//	zero        a default equal to the type's zero value (false, 0, 0.0, ""); elist/emap/estruct: [], {}, {}
//	big:<lit>   a numeric default at a boundary (2^53+1, MaxInt64, MinInt64+1, MaxUint64, 1e21, 2^24+1);
//	            constants use gschema's const flavour "num:<lit>", enum members its enum flavour "big"
//	nest1/nest2 partial struct overrides nested over three levels (Root.f: M | *{t}, M.n: L | *{l, c}),
//	            in both declaration orders of the outer and the middle object
//
// Defaults declared by the two anchored schema transformations are covered by
// units that enable the pass (passTable): `const | type` unions (constant first
// and last) under disjunction_with_constant_to_default, and fields_set_default
// with a value of every type.
type (
	Term   = gschema.Term
	Schema = gschema.Schema
	Obj    = gschema.Obj
)

func num(s string) json.Number { return json.Number(s) }

func ref(n string) Term { return irgen.Ref(gschema.Pkg + "." + n) }

func refTarget(t Term) string { return strings.TrimPrefix(t.A, gschema.Pkg+".") }

// D is a struct that itself has a field with a default.
func objD() Obj {
	a := irgen.S("string")
	a.Default = "scalar"
	return Obj{Name: "D", T: irgen.StructN([]irgen.Field{{Name: "a", Required: true}, {Name: "b", Required: true}}, []Term{a, irgen.S("int64")})}
}

// inlineNS is the anonymous struct {n: int64, s?: string}.
func inlineNS() Term {
	return irgen.StructN([]irgen.Field{{Name: "n", Required: true}, {Name: "s", Required: false}}, []Term{irgen.S("int64"), irgen.S("string")})
}

func discUnion() Term { return Term{K: "disj", Sub: []Term{ref("S"), ref("T")}, Disc: true} }

func structDefault(t Term, full bool) (any, bool) {
	switch t.K {
	case "ref":
		switch refTarget(t) {
		case "P":
			if full {
				return map[string]any{"n": num("1"), "s": "ab"}, true
			}
			return map[string]any{"n": num("1")}, true
		case "D":
			if full {
				return map[string]any{"a": "z", "b": num("3")}, true
			}
			return map[string]any{"b": num("3")}, true
		case "S":
			if full {
				return map[string]any{"kind": "s", "x": "v"}, true
			}
			return map[string]any{"kind": "s"}, true
		}
	case "disj":
		if full {
			return map[string]any{"kind": "t", "y": num("4")}, true
		}
		return map[string]any{"kind": "t"}, true
	case "struct":
		if full {
			return map[string]any{"n": num("1"), "s": "ab"}, true
		}
		return map[string]any{"n": num("1")}, true
	}
	return nil, false
}

func installHooks() {
	gschema.DefaultHook = func(s Schema, t Term) (any, bool) {
		if strings.HasPrefix(t.Default, "big:") { // a boundary literal chosen by the schema
			return num(strings.TrimPrefix(t.Default, "big:")), true
		}
		switch t.Default {
		case "refand1": // the FIRST member, through the reference idiom
			if t.K == "ref" {
				switch refTarget(t) {
				case "N":
					return num("1"), true
				case "E":
					return "a", true
				}
			}
		case "struct2": // a second, different partial override of the same struct
			if t.K == "ref" {
				switch refTarget(t) {
				case "P":
					return map[string]any{"n": num("2")}, true
				case "D":
					return map[string]any{"b": num("4")}, true
				}
			}
		case "scalar", "refand":
			if t.K == "ref" {
				switch refTarget(t) {
				case "NB":
					return num(gschema.BigEnumMembers[1]), true
				case "N":
					return num("2"), true
				case "E":
					return "b", true
				}
			}
		case "ilist":
			return []any{num("1"), num("2")}, true
		case "elist":
			return []any{}, true
		case "branch2":
			if t.K == "disj" && len(t.Sub) == 2 {
				switch b := t.Sub[1]; {
				case b.K == "scalar" && b.A == "bool":
					return true, true
				case b.K == "scalar" && b.A == "int64":
					return num("2"), true
				case b.K == "array":
					return []any{"x", "y"}, true
				}
			}
		case "nest1": // partial override of the middle struct (M or Root): only its title
			return map[string]any{"t": "o"}, true
		case "nest2": // partial override of the innermost struct L: two of its three members
			return map[string]any{"l": "l2", "c": num("7")}, true
		case "struct":
			return structDefault(t, false)
		case "structfull":
			return structDefault(t, true)
		case "emap":
			return map[string]any{}, true
		case "estruct":
			return map[string]any{}, true
		case "zero":
			if t.K == "scalar" {
				switch t.A {
				case "bool":
					return false, true
				case "string":
					return "", true
				case "float32", "float64":
					return num("0.0"), true
				default:
					return num("0"), true
				}
			}
		}
		return nil, false
	}
	gschema.CueDefaultHook = func(s Schema, t Term, typ string) (string, bool) {
		if (t.Default == "refand" || t.Default == "refand1") && t.K == "ref" {
			v, _ := gschema.DefaultHook(s, t)
			b, _ := json.Marshal(v)
			return typ + " & (*" + string(b) + " | _)", true
		}
		if t.K == "disj" && t.Default != "" && !t.Nullable {
			// the flat idiom of cog's own test data: `A | B | string | *"browser"`
			return typ + " | *" + cueLit(s.DefaultValue(t)), true
		}
		return "", false
	}
}

func cueLit(v any) string {
	switch x := v.(type) {
	case json.Number:
		return x.String()
	case []any:
		var p []string
		for _, e := range x {
			p = append(p, cueLit(e))
		}
		return "[" + strings.Join(p, ", ") + "]"
	case map[string]any:
		keys := make([]string, 0, len(x))
		for k := range x {
			keys = append(keys, k)
		}
		sort.Strings(keys)
		var p []string
		for _, k := range keys {
			p = append(p, k+": "+cueLit(x[k]))
		}
		return "{" + strings.Join(p, ", ") + "}"
	}
	b, _ := json.Marshal(v)
	return string(b)
}

func def(t Term, flavour string) Term { t.Default = flavour; return t }
func con(t Term) Term                 { t.Constr = true; return t }

var (
	boundaryInts   = []string{"9007199254740993", "-9007199254740993", "9223372036854775807", "-9223372036854775807"}
	maxUint64      = "18446744073709551615"
	boundaryFloats = []string{"1e21", "16777217.0"}
	boundaryName   = map[string]string{"9007199254740993": "2^53+1", "-9007199254740993": "-(2^53+1)", "9223372036854775807": "MaxInt64",
		"-9223372036854775807": "MinInt64+1", "18446744073709551615": "MaxUint64", "1e21": "1e21", "16777217.0": "2^24+1"}
)

// ED / ND / AD: a named string enum, integer enum and string alias that declare a default
// of their own ("b", 2, "d").
func objsWithOwnDefault() map[string]Obj {
	return map[string]Obj{
		"ED": {Name: "ED", T: def(irgen.Enum("str"), "scalar")},
		"ND": {Name: "ND", T: def(irgen.Enum("int"), "scalar")},
		"AD": {Name: "AD", T: def(irgen.S("string"), "scalar")},
	}
}

// NB is a named integer enum whose members are beyond 2^53.
func objNB() Obj { return Obj{Name: "NB", T: irgen.Enum("big")} }

// withObjs builds a schema from Root plus the support objects it references
// (gschema's S, T, E, N, A, K, P and this harness's D).
func withObjs(root Term) Schema {
	objs := []Obj{{Name: "Root", T: root}}
	usesD, usesNB := false, false
	var walk func(t Term)
	walk = func(t Term) {
		if t.K == "ref" && refTarget(t) == "D" {
			usesD = true
		}
		if t.K == "ref" && refTarget(t) == "NB" {
			usesNB = true
		}
		for _, s := range t.Sub {
			walk(s)
		}
	}
	walk(root)
	if usesD {
		objs = append(objs, objD())
	}
	if usesNB {
		objs = append(objs, objNB())
	}
	own := objsWithOwnDefault()
	for _, n := range []string{"ED", "ND", "AD"} {
		used := false
		var w func(t Term)
		w = func(t Term) {
			if t.K == "ref" && refTarget(t) == n {
				used = true
			}
			for _, s := range t.Sub {
				w(s)
			}
		}
		w(root)
		if used {
			objs = append(objs, own[n])
		}
	}
	return gschema.WithSupport(objs...)
}

func field1(t Term, required bool) Schema { return withObjs(irgen.Struct1("f", required, t)) }

// declared lists the field types (with their default or constant) of the tier.
func declared(thorough bool) []Term {
	S := irgen.S
	out := []Term{
		// scalar defaults of every value type
		def(S("bool"), "scalar"), def(S("int64"), "scalar"), def(S("float64"), "scalar"), def(S("string"), "scalar"),
		def(con(S("int64")), "scalar"), def(con(S("float64")), "scalar"), def(con(S("string")), "scalar"),
		def(S("datetime"), "scalar"),
		// enum members: anonymous (string, int), references in both CUE idioms
		def(irgen.Enum("str"), "scalar"), def(irgen.Enum("int"), "scalar"),
		def(ref("E"), "scalar"), def(ref("E"), "refand"), def(ref("N"), "refand"),
		// lists
		def(irgen.Array(S("string")), "list"), def(irgen.Array(S("int64")), "ilist"),
		// structs with partial / complete overrides
		def(ref("P"), "struct"), def(ref("P"), "structfull"), def(ref("D"), "struct"), def(inlineNS(), "struct"),
		// union branches
		def(irgen.Disj(S("string"), S("bool")), "scalar"), def(irgen.Disj(S("string"), S("bool")), "branch2"),
		def(irgen.Disj(S("string"), S("int64")), "branch2"),
		def(discUnion(), "struct"),
		// constants
		irgen.Const("str"), irgen.Const("int"), irgen.Const("bool"), irgen.Const("float"), ref("K"), irgen.ConstRef(gschema.Pkg + ".E"),
		// a struct whose own fields carry defaults / constants, reached through a reference
		ref("D"), ref("S"),
		// zero / empty defaults of every value type: the declared value coincides with what an
		// uninitialised field holds, so "dropped", "nil instead of empty" and "absent" show here only
		def(S("bool"), "zero"), def(S("int64"), "zero"), def(S("float64"), "zero"), def(S("string"), "zero"),
		def(irgen.Array(S("string")), "elist"), def(irgen.Array(S("int64")), "elist"), def(irgen.Map(S("string")), "emap"),
		def(irgen.Struct1("s", false, S("string")), "estruct"), def(ref("P"), "estruct"),
	}
	// numeric boundaries: integers a float64 cannot hold, the int64/uint64 bounds, floats
	// beyond float32 precision / written with an exponent — as constants, as defaults, as enum members
	for _, lit := range boundaryInts {
		out = append(out, irgen.Const("num:"+lit), def(S("int64"), "big:"+lit))
	}
	out = append(out, irgen.Const("num:"+maxUint64), def(S("uint64"), "big:"+maxUint64))
	for _, lit := range boundaryFloats {
		out = append(out, irgen.Const("num:"+lit), def(S("float64"), "big:"+lit))
	}
	out = append(out, def(irgen.Enum("big"), "scalar"), def(ref("NB"), "refand"))
	if thorough {
		out = append(out,
			def(S("any"), "scalar"),
			def(ref("N"), "scalar"),
			def(irgen.Map(S("string")), "map"),
			def(ref("D"), "structfull"), def(ref("S"), "struct"), def(ref("S"), "structfull"), def(inlineNS(), "structfull"),
			def(irgen.Disj(S("string"), S("int64")), "scalar"), def(irgen.Disj(S("string"), irgen.Array(S("string"))), "branch2"),
			def(discUnion(), "structfull"),
			def(irgen.Nullable(S("string")), "scalar"), def(irgen.Nullable(S("int64")), "scalar"),
		)
		for _, k := range []string{"int8", "uint8", "int16", "uint16", "int32", "uint32", "uint64", "float32"} {
			out = append(out, def(S(k), "scalar"))
		}
	}
	return out
}

// ---- nested partial struct defaults (three levels) ----------------------------------------

// L: every member has its own default; M refers to L with a partial override.
func objL() Obj {
	return Obj{Name: "L", T: irgen.StructN([]irgen.Field{{Name: "l", Required: true}, {Name: "c", Required: true}, {Name: "e", Required: true}},
		[]Term{def(irgen.S("string"), "scalar"), def(irgen.S("int64"), "scalar"), def(irgen.S("bool"), "scalar")})}
}

func midStruct() Term {
	return irgen.StructN([]irgen.Field{{Name: "t", Required: true}, {Name: "n", Required: true}}, []Term{def(irgen.S("string"), "scalar"), def(ref("L"), "nest2")})
}

func nestedSchemas() []Schema {
	outer := func(target string) Term { return irgen.Struct1("f", true, def(ref(target), "nest1")) }
	return []Schema{
		// two levels
		{Objs: []Obj{{Name: "Root", T: irgen.Struct1("f", true, def(ref("L"), "nest2"))}, objL()}},
		// three levels, the outermost object declared first ...
		{Objs: []Obj{{Name: "Root", T: outer("M")}, {Name: "M", T: midStruct()}, objL()}},
		// ... and declared after the object it overrides (constructors are rendered in declaration order)
		{Objs: []Obj{{Name: "Root", T: midStruct()}, {Name: "O", T: outer("Root")}, objL()}},
		{Objs: []Obj{{Name: "Root", T: midStruct()}, objL(), {Name: "O", T: outer("Root")}}},
	}
}

// ---- defaults declared through schema transformations -------------------------------------

// passInfo describes the `transformations.schemas` passes a schema is generated with
// and what they declare. Keyed by Schema.String() in passTable.
type passInfo struct {
	Name        string         // pass name (part of the witness)
	YAML        string         // content of the passes file
	ConstDisj   bool           // disjunction_with_constant_to_default: `const | type` fields default to the constant
	SetDefaults map[string]any // fields_set_default: "<package>.<Object>.<field>" -> value
	// Second, when set, is a second package ("q") generated in the same unit: same object and
	// field names as package p, so that a transformation aimed at one package can be seen
	// leaking into the other.
	Second *Schema
}

const secondPkg = "q"

var passTable = map[string]passInfo{}

func passOf(s Schema) (passInfo, bool) { p, ok := passTable[s.String()]; return p, ok }

func witnessSuffix(s Schema) string {
	if p, ok := passOf(s); ok {
		return " +pass:" + p.Name
	}
	return ""
}

func passSchemas(thorough bool) []Schema {
	var out []Schema
	typeOf := map[string]string{"str": "string", "int": "int64", "bool": "bool", "float": "float64"}
	for _, flavour := range []string{"str", "int", "bool", "float"} {
		for _, constFirst := range []bool{false, true} {
			for _, required := range []bool{true, false} {
				branches := []Term{irgen.S(typeOf[flavour]), irgen.Const(flavour)}
				if constFirst {
					branches[0], branches[1] = branches[1], branches[0]
				}
				s := Schema{Objs: []Obj{{Name: "Root", T: irgen.Struct1("f", required, Term{K: "disj", A: "anyOf", Sub: branches})}}}
				passTable[s.String()] = passInfo{Name: "disjunction_with_constant_to_default", ConstDisj: true,
					YAML: "passes:\n  - disjunction_with_constant_to_default: {}\n"}
				out = append(out, s)
			}
		}
	}
	type sd struct {
		t Term
		v any
	}
	sets := []sd{
		{irgen.S("string"), "d"}, {irgen.S("int64"), num("3")}, {irgen.S("float64"), num("1.5")}, {irgen.S("bool"), true},
		{irgen.Array(irgen.S("string")), []any{"x", "y"}}, {irgen.Enum("str"), "b"}, {ref("E"), "b"},
	}
	// the referred definition has a default of its own, the field is given a DIFFERENT one
	sets = append(sets, sd{ref("ED"), "a"}, sd{ref("ND"), num("1")}, sd{ref("AD"), "x"})
	if thorough {
		sets = append(sets, sd{irgen.Array(irgen.S("int64")), []any{num("1"), num("2")}}, sd{irgen.Enum("int"), num("2")}, sd{ref("N"), num("2")})
	}
	for _, x := range sets {
		for _, required := range []bool{true, false} {
			s := withObjs(irgen.Struct1("v", required, x.t))
			b, _ := json.Marshal(x.v)
			passTable[s.String()] = passInfo{Name: "fields_set_default", SetDefaults: map[string]any{"p.Root.v": x.v},
				YAML: "passes:\n  - fields_set_default:\n      defaults: {\"p.Root.v\": " + string(b) + "}\n"}
			out = append(out, s)
		}
	}
	// fields_set_default aims at ONE field, "<package>.<Object>.<field>": a same-named field
	// of another object of the package (Q), or of the same-named object of another package
	// (Qq describes what package q's Root looks like) keeps its own default; when both
	// packages are aimed at, each gets its own value
	type multi struct {
		t      Term
		v1, v2 any
	}
	multis := []multi{{irgen.S("int64"), num("3"), num("4")}, {irgen.S("string"), "x", "y"}, {irgen.Enum("str"), "b", "a"}}
	if thorough {
		multis = append(multis, multi{irgen.S("bool"), true, false}, multi{irgen.Array(irgen.S("string")), []any{"x"}, []any{"y", "z"}})
	}
	for _, m := range multis {
		own := def(m.t, map[string]string{"scalar": "scalar", "enum": "scalar", "array": "list"}[m.t.K])
		if m.t.K == "scalar" && m.t.A == "bool" {
			own = def(m.t, "zero") // false: differs from the value the pass sets
		}
		v1, _ := json.Marshal(m.v1)
		v2, _ := json.Marshal(m.v2)
		other := irgen.Struct1("w", true, own)
		// Root refers to the other object: the JSON Schema front-end only keeps the definitions it can reach
		rootOf := func(otherName string) Term {
			return irgen.StructN([]irgen.Field{{Name: "w", Required: true}, {Name: "o", Required: false}}, []Term{m.t, ref(otherName)})
		}
		root := irgen.Struct1("w", true, m.t)
		// (1) another object of the same package holds a field with the same name
		s1 := Schema{Objs: []Obj{{Name: "Root", T: rootOf("Q")}, {Name: "Q", T: other}}}
		passTable[s1.String()] = passInfo{Name: "fields_set_default", SetDefaults: map[string]any{"p.Root.w": m.v1},
			YAML: "passes:\n  - fields_set_default:\n      defaults: {\"p.Root.w\": " + string(v1) + "}\n"}
		// (2) another package holds the same object and field names, with a default of its own
		q2 := Schema{Objs: []Obj{{Name: "Root", T: other}}}
		s2 := Schema{Objs: []Obj{{Name: "Root", T: rootOf("Qq")}, {Name: "Qq", T: other}}}
		passTable[s2.String()] = passInfo{Name: "fields_set_default(p only; package q holds the same names)", SetDefaults: map[string]any{"p.Root.w": m.v1}, Second: &q2,
			YAML: "passes:\n  - fields_set_default:\n      defaults: {\"p.Root.w\": " + string(v1) + "}\n"}
		// (3) both packages are given a value, each its own
		q3 := Schema{Objs: []Obj{{Name: "Root", T: root}}}
		s3 := Schema{Objs: []Obj{{Name: "Root", T: rootOf("Qq")}, {Name: "Qq", T: root}}}
		passTable[s3.String()] = passInfo{Name: "fields_set_default(p and q, different values)", SetDefaults: map[string]any{"p.Root.w": m.v1, "q.Root.w": m.v2}, Second: &q3,
			YAML: "passes:\n  - fields_set_default:\n      defaults: {\"p.Root.w\": " + string(v1) + ", \"q.Root.w\": " + string(v2) + "}\n"}
		out = append(out, s1, s2, s3)
	}
	return out
}

// c10Schemas is the complete schema set of the tier, smallest first, no duplicates.
func c10Schemas(thorough bool) []Schema {
	seen := map[string]bool{}
	var out []Schema
	add := func(s Schema) {
		if k := s.String(); !seen[k] {
			seen[k] = true
			out = append(out, s)
		}
	}
	ds := declared(thorough)
	for _, t := range ds {
		add(field1(t, true))
		add(field1(t, false))
	}
	// a default inside a nested anonymous struct (required and optional parent)
	for _, t := range []Term{def(irgen.S("string"), "scalar"), def(irgen.S("int64"), "scalar"), irgen.Const("str"), def(irgen.Enum("str"), "scalar")} {
		add(field1(irgen.Struct1("g", true, t), true))
		if thorough {
			add(field1(irgen.Struct1("g", false, t), true))
			add(field1(irgen.Struct1("g", true, t), false))
		}
	}
	// pairs: two declared fields side by side (a required, b optional)
	rep := []Term{def(irgen.S("string"), "scalar"), def(irgen.S("int64"), "scalar"), irgen.Const("str")}
	if thorough {
		rep = append(rep, def(irgen.Enum("str"), "scalar"), def(ref("P"), "struct"), def(irgen.Array(irgen.S("string")), "list"), def(ref("E"), "refand"), irgen.S("string"))
	}
	for _, a := range rep {
		for _, b := range rep {
			add(withObjs(irgen.StructN([]irgen.Field{{Name: "a", Required: true}, {Name: "b", Required: false}}, []Term{a, b})))
		}
	}
	for _, s := range nestedSchemas() {
		add(s)
	}
	// the same definition referred to more than once with DIFFERENT defaults (enum member,
	// struct override), in both orders, and with/without a default — a front-end or jenny
	// that remembers what a reference resolved to shows here only
	again := [][2]Term{
		{def(ref("E"), "refand"), def(ref("E"), "refand1")}, {def(ref("N"), "refand"), def(ref("N"), "refand1")},
		{def(ref("P"), "struct"), def(ref("P"), "struct2")}, {def(ref("D"), "struct"), def(ref("D"), "struct2")},
		{def(ref("E"), "refand"), ref("E")}, {def(ref("P"), "struct"), ref("P")},
	}
	for _, pair := range again {
		for _, order := range [][2]int{{0, 1}, {1, 0}} {
			a, b := pair[order[0]], pair[order[1]]
			add(withObjs(irgen.StructN([]irgen.Field{{Name: "a", Required: true}, {Name: "b", Required: true}}, []Term{a, b})))
			if thorough {
				add(withObjs(irgen.StructN([]irgen.Field{{Name: "a", Required: false}, {Name: "b", Required: false}}, []Term{a, b})))
			}
		}
	}
	for _, s := range passSchemas(thorough) {
		add(s)
	}
	sort.SliceStable(out, func(i, j int) bool { return out[i].Size() < out[j].Size() })
	return out
}
