//go:build verif

// C18: every DeepCopy of the IR is faithful (equal in every declared field)
// and independent (no shared mutable location; no mutation of the copy is
// visible in the original). DESIGN.md §6 C18.
package main

import (
	"fmt"
	"os"
	"reflect"
	"runtime"
	"sync"
	"time"
	"sort"
	"strings"

	"github.com/grafana/cog/internal/ast"
	"github.com/grafana/cog/internal/orderedmap"
	"github.com/grafana/cog/verifx/irgen"
	"github.com/grafana/cog/verifx/refl"
	"github.com/grafana/cog/verifx/vx"
)

// roots: one zero value of every IR node type that has a DeepCopy method.
var roots = []any{
	ast.Type{}, ast.Object{}, ast.Schema{}, ast.Schemas{},
	ast.DisjunctionType{}, ast.ArrayType{}, ast.EnumType{}, ast.EnumValue{}, ast.MapType{},
	ast.StructType{}, ast.StructField{}, ast.ConstantReferenceType{}, ast.RefType{}, ast.ScalarType{},
	ast.IntersectionType{}, ast.ComposableSlotType{}, ast.TypeConstraint{},
	ast.Builder{}, ast.Constructor{}, ast.Option{}, ast.Argument{}, ast.PathIndex{}, ast.PathItem{}, ast.Path{},
	ast.EnvelopeFieldValue{}, ast.AssignmentEnvelope{}, ast.AssignmentValue{}, ast.AssignmentNilCheck{},
	ast.Assignment{}, ast.AssignmentConstraint{},
	ast.BuilderFactory{}, ast.OptionCall{}, ast.TypedConstant{}, ast.OptionCallParameter{}, ast.FactoryRef{}, ast.FactoryCall{},
}

// compositeSlots are the interface{} positions that realistically hold lists
// or maps (defaults, hints, option default values, YAML-provided constants).
// The other interface{} positions (scalar constants, constraint arguments,
// enum values, path indexes) only ever hold immutable scalars and are filled
// with scalars only, so that sharing them is not reported.
var compositeSlots = map[string]bool{
	"Type.Default":             true,
	"Type.Hints":               true,
	"OptionDefault.ArgsValues": true,
	"TypedConstant.Value":      true,
	"AssignmentValue.Constant": true,
}

type anyVariant struct {
	name string
	mk   func() any
}

var anyVariants = []anyVariant{
	{"scalar", func() any { return "s" }},
	{"list", func() any { return []any{"x", []any{"y"}} }},
	{"map", func() any { return map[string]any{"k": []any{"v"}} }},
	{"int64", func() any { return int64(7) }},
}

func hintVariant() any {
	return ast.DisjunctionType{
		Branches:             ast.Types{ast.String(), ast.NewRef("p", "O")},
		Discriminator:        "kind",
		DiscriminatorMapping: map[string]string{"a": "O"},
	}
}

var builderFamily = map[string]bool{"Builder": true, "Constructor": true, "Option": true, "Assignment": true, "AssignmentEnvelope": true,
	"EnvelopeFieldValue": true, "AssignmentValue": true, "BuilderFactory": true, "OptionCall": true, "OptionCallParameter": true, "FactoryCall": true, "Schemas": true, "Schema": true}

type caseID struct {
	root    string
	variant string
	shape   string // all | zero | only:<Field>
}

func (c caseID) String() string { return c.root + "/" + c.variant + "/" + c.shape }

func deepCopy(v reflect.Value) (reflect.Value, error) {
	p := reflect.New(v.Type())
	p.Elem().Set(v)
	m := p.MethodByName("DeepCopy")
	if !m.IsValid() {
		return reflect.Value{}, fmt.Errorf("no DeepCopy method on %s", v.Type())
	}
	out := m.Call(nil)[0]
	if out.Type() != v.Type() && out.Type().ConvertibleTo(v.Type()) {
		out = out.Convert(v.Type())
	}
	return out, nil
}

type stats struct {
	values, mutations int
	shapes            map[string]bool
}

// ensureObjects enforces the one construction invariant cog relies on: a
// Schema always holds a non-nil ordered map (ast.NewSchema).
func ensureObjects(v reflect.Value) reflect.Value {
	switch s := v.Interface().(type) {
	case ast.Schema:
		if s.Objects == nil {
			s.Objects = orderedmap.New[string, ast.Object]()
			return reflect.ValueOf(s)
		}
	case ast.Schemas:
		for _, sc := range s {
			if sc != nil && sc.Objects == nil {
				sc.Objects = orderedmap.New[string, ast.Object]()
			}
		}
	}
	return v
}

func checkValue(r *vx.Run, id string, size int, orig reflect.Value, st *stats, samples *vx.Samples) {
	orig = ensureObjects(orig)
	st.values++
	before := refl.Canon(orig.Interface())
	st.shapes[before] = true
	var cp reflect.Value
	var err error
	if p := vx.Catch(func() { cp, err = deepCopy(orig) }); p != nil {
		r.Fail(vx.Failure{Kind: typeOf(id) + ".DeepCopy panics: " + fmt.Sprint(p), Witness: id, Size: size, What: fmt.Sprintf("%s.DeepCopy() panics: %v", id, p)})
		return
	}
	if err != nil {
		vx.Fatalf("%v", err)
	}
	samples.Add(map[string]any{"case": id, "canon_len": len(before)})
	if after := refl.Canon(orig.Interface()); after != before {
		r.Fail(vx.Failure{Kind: typeOf(id) + ".DeepCopy modifies its receiver", Witness: id, Size: size, What: id + ": DeepCopy modified the original"})
	}
	for _, d := range refl.Diff(orig.Interface(), cp.Interface(), 20) {
		path := refl.Culprit(strings.SplitN(d, ": ", 2)[0])
		r.Fail(vx.Failure{Kind: fmt.Sprintf("copy differs at %s", path), Witness: id, Size: size,
			What: fmt.Sprintf("%s.DeepCopy(): copy differs from the original at %s", id, d), Detail: map[string]any{"case": id}})
	}
	for _, s := range refl.Shared(orig.Interface(), cp.Interface()) {
		r.Fail(vx.Failure{Kind: fmt.Sprintf("copy shares %s", culpritOfShared(s)), Witness: id, Size: size,
			What: fmt.Sprintf("%s.DeepCopy(): original and copy share mutable memory at %s", id, s), Detail: map[string]any{"case": id}})
	}
	// behavioural confirmation: write every reachable location of a fresh copy, one at a time
	for n := 0; ; n++ {
		c2, _ := deepCopy(orig)
		p := reflect.New(c2.Type())
		p.Elem().Set(c2)
		path, ok := refl.MutateNth(p.Interface(), n)
		if !ok {
			break
		}
		st.mutations++
		if after := refl.Canon(orig.Interface()); after != before {
			r.Fail(vx.Failure{Kind: fmt.Sprintf("writing the copy at %s changes the original", refl.Culprit(path)), Witness: id, Size: size,
				What:   fmt.Sprintf("%s: after DeepCopy, writing the copy at %s changed the original", id, path),
				Detail: map[string]any{"case": id, "mutation": n, "path": path}})
			// restore for the next mutation: rebuild is not possible generically, so stop here for this value
			return
		}
	}
}

func culpritOfShared(s string) string {
	parts := strings.Split(s, " ~ ")
	for i := range parts {
		parts[i] = refl.Culprit(parts[i])
	}
	if len(parts) == 2 && parts[0] == parts[1] {
		return parts[0]
	}
	return strings.Join(parts, " ~ ")
}

func typeOf(id string) string { return strings.SplitN(id, "/", 2)[0] }

func buildCases(thorough bool) []struct {
	id   string
	size int
	mk   func() reflect.Value
} {
	var out []struct {
		id   string
		size int
		mk   func() reflect.Value
	}
	add := func(id string, size int, mk func() reflect.Value) {
		out = append(out, struct {
			id   string
			size int
			mk   func() reflect.Value
		}{id, size, mk})
	}
	maxRec := 2
	if thorough {
		maxRec = 3
	}
	for _, root := range roots {
		t := reflect.TypeOf(root)
		name := t.Name()
		add(name+"/-/zero", 0, func() reflect.Value { return reflect.New(t).Elem() })
		variants := append([]anyVariant{}, anyVariants...)
		variants = append(variants, anyVariant{"hint-disjunction", nil})
		for _, av := range variants {
			av := av
			anyFn := func(structName, field string) any {
				slot := structName + "." + field
				if av.mk == nil { // hint variant
					if slot == "Type.Hints" {
						return hintVariant()
					}
					return "s"
				}
				if compositeSlots[slot] {
					return av.mk()
				}
				if av.name == "int64" {
					return int64(7)
				}
				return "s"
			}
			recMax := maxRec
			if builderFamily[name] {
				recMax-- // the builder-side nodes embed many ast.Type slots: one recursion level less
			}
			for rec := 1; rec <= recMax; rec++ {
				rec := rec
				add(fmt.Sprintf("%s/%s/all-rec%d", name, av.name, rec), 10*rec+1, func() reflect.Value {
					f := &refl.Filler{MaxRec: rec, Any: anyFn, OnlyField: -1}
					return f.Fill(t)
				})
			}
			if t.Kind() == reflect.Struct {
				for i := 0; i < t.NumField(); i++ {
					i := i
					add(fmt.Sprintf("%s/%s/only:%s", name, av.name, t.Field(i).Name), 5, func() reflect.Value {
						f := &refl.Filler{MaxRec: 1, Any: anyFn, OnlyField: i}
						return f.Fill(t)
					})
					if deeperOneField[name] {
						// the filler leaves a collection empty when its element type can reach a node
						// type that is already on the stack (an envelope inside an envelope value):
						// one more level for the one-field values, which stay small
						add(fmt.Sprintf("%s/%s/only:%s/rec2", name, av.name, t.Field(i).Name), 6, func() reflect.Value {
							f := &refl.Filler{MaxRec: 2, Any: anyFn, OnlyField: i}
							return f.Fill(t)
						})
					}
				}
			}
		}
	}
	// Grammar-I values: real IR types, objects and schemas (constructed through cog's own constructors).
	depth := 2
	if thorough {
		depth = 3
	}
	for _, term := range irgen.Types(irgen.Config{Depth: depth, Decorate: true}) {
		term := term
		add("Type/I/"+term.String(), term.Size(), func() reflect.Value { return reflect.ValueOf(term.Build()) })
	}
	for _, sc := range irgen.SeedSchemas() {
		sc := sc
		add("Schemas/I/"+sc.Name, 50, func() reflect.Value { return reflect.ValueOf(sc.Build()) })
		add("Builder/I/"+sc.Name, 50, func() reflect.Value {
			bs := (&ast.BuilderGenerator{}).FromAST(sc.Build())
			if len(bs) == 0 {
				return reflect.ValueOf(ast.Builder{})
			}
			return reflect.ValueOf(bs[0])
		})
	}
	return out
}

// deeperOneField: small builder-side nodes whose one-field values are also built one recursion
// level deeper (an envelope value holding an argument / a nested envelope).
var deeperOneField = map[string]bool{"AssignmentEnvelope": true, "EnvelopeFieldValue": true, "AssignmentValue": true, "Assignment": true}

func main() {
	r := vx.Start("C18")
	r.PerKindSmallest = true
	_ = orderedmap.SortStrings
	cases := buildCases(r.Thorough())
	if r.Replay != "" {
		_, witness, _ := r.ReplayFile()
		for _, c := range cases {
			if c.id == witness {
				st := &stats{shapes: map[string]bool{}}
				checkValue(r, c.id, c.size, c.mk(), st, &vx.Samples{N: 1})
				for _, f := range r.Frontier() {
					fmt.Println("  ", f.What)
				}
				if r.NumFailures() > 0 {
					fmt.Printf("VIOLATION property=C18 replay=%s\n", r.Replay)
					vxExit(1)
				}
				fmt.Println("replay: no mismatch on this tree")
				vxExit(0)
			}
		}
		vx.Fatalf("unknown case %q", witness)
	}
	st := &stats{shapes: map[string]bool{}}
	samples := &vx.Samples{N: 8}
	byRoot := map[string]int{}
	var wg sync.WaitGroup
	var mu sync.Mutex
	ch := make(chan int)
	for w := 0; w < runtime.NumCPU(); w++ {
		wg.Add(1)
		go func() {
			defer wg.Done()
			for i := range ch {
				c := cases[i]
				local := &stats{shapes: map[string]bool{}}
				t0 := time.Now()
				checkValue(r, c.id, c.size, c.mk(), local, samples)
				if d := time.Since(t0); d > 5*time.Second {
					fmt.Fprintf(os.Stderr, "slow case %s: %v (%d mutations)\n", c.id, d, local.mutations)
				}
				mu.Lock()
				st.values += local.values
				st.mutations += local.mutations
				for k := range local.shapes {
					st.shapes[k] = true
				}
				byRoot[typeOf(c.id)]++
				mu.Unlock()
			}
		}()
	}
	for i := range cases {
		ch <- i
	}
	close(ch)
	wg.Wait()
	var rootsCovered []string
	for k, n := range byRoot {
		rootsCovered = append(rootsCovered, fmt.Sprintf("%s:%d", k, n))
	}
	sort.Strings(rootsCovered)
	r.Finish(map[string]any{
		"states":                        len(st.shapes),
		"transitions":                   st.values + st.mutations,
		"traces_validated_against_impl": st.values + st.mutations,
		"samples":                       samples.L,
		"exhaustive":                    true,
		"values_copied":                 st.values,
		"single_location_mutations":     st.mutations,
		"node_types":                    len(roots),
		"values_per_node_type":          rootsCovered,
		"explanation":                   "for every IR node type with a DeepCopy method: zero value, reflection-filled all-fields-set values (recursion 1..N, 5 contents for interface slots), one value per single field set, plus grammar-I types/schemas/builders; each value is copied by the real DeepCopy, compared field by field (reflection incl. unexported fields, nil≍empty), checked for shared addresses (pointers, maps, every slot of every slice backing array), and every reachable location of the copy is written once while the original's canonical snapshot must stay unchanged",
	}, []string{
		"interface{} slots that only ever hold immutable scalars (constants, constraint arguments, enum values, path indexes) are filled with scalars only",
		"a copy may turn nil collections into empty ones and vice versa (nil ≍ empty)",
	})
}

func vxExit(c int) { os.Exit(c) }
