//go:build verif

// C20: configuration files are decoded strictly and agree with the published
// JSON Schemas (DESIGN.md §3.4, §6 C20).
//
// The key-path grammar is read from the artefacts themselves, twice and
// independently:
//   - schema side: schemas/{pipeline,compiler_passes,veneers}.json are walked
//     ($ref/$defs, properties, additionalProperties, items);
//   - loader side: the Go structs the loaders decode into are walked by
//     reflection with yaml.v3's field-naming rules (yaml tag, else lower-cased
//     field name; "-" skipped; ",inline" flattened).
//
// Both grammars are walked *together* (a key may be declared on one side
// only) up to a recursion bound on named definitions. For every abstract key
// path one minimal document is built that reaches the path with a type-correct
// value; the documents are written as YAML files to a scratch directory and
// pushed through the REAL loaders (codegen.PipelineFromFile,
// yaml.CompilerLoader.PassesFrom, yaml.VeneersLoader.RewriterFrom) and through
// the published schema with santhosh-tekuri/jsonschema (plus, when available,
// Python jsonschema as an independent second validator: documents on which the
// two validators disagree are excluded, never reported).
//
// Families of documents (all enumerated exhaustively):
//
//	path      every declared key path, instantiated                (agreement)
//	free      every free-form ("any") position, given a mapping    (agreement)
//	inject    every mapping node of every path document + 1 undeclared key
//	alias     every mapping node + the Go field name / yaml default name of
//	          each of its fields when that is not itself a declared key
//	noaction  every union ("rule") list — passes, builders, options, and the
//	          pipeline's inputs and output.languages — with an entry that
//	          names no member: `{}`, `null`, `{<member>: null}` for every
//	          member (`- typescript:`), an entry setting only a non-member
//	          key (`{if: …}`); each form alone, twice, and BEFORE / AFTER /
//	          BETWEEN a well-formed entry of every member kind; for pass and
//	          veneer files also as the 1st / 2nd file of a batch of two
//
// Undeclared keys are likewise injected into the 2nd item of every list a path
// goes through (after a well-formed sibling) and into the 1st / 2nd file of a
// batch. "Loading" a pipeline is PipelineFromFile followed by the resolution of
// its unions (OutputLanguages, Input.InterpolateParameters), which is what
// Pipeline.Run does before anything else.
//
// Composition routes. Pass and veneer files are normally reached THROUGH a
// pipeline, so the path / inject / merge / no-member documents of these two
// file kinds are additionally loaded through every route the pipeline grammar
// offers — `transformations.schemas`, `transformations.builders`, and the
// `transformations` list of every input kind (derived from the grammar:
// jsonschema, openapi, cue, kindsys_core, kindsys_composable, kind_registry) —
// by writing a real pipeline next to the document and loading it the way
// Pipeline.Run does before generating (PipelineFromFile, OutputLanguages,
// LoadSchemas, ContextForLanguage) against small real inputs of each kind.
// Only the negative clauses are judged through a route.
//
// Oracle clauses (each is a sentence of the property statement):
//
//	unknown-key-accepted          "a key that is not part of the configuration
//	                               language is rejected with an error at any
//	                               nesting depth"
//	no-action-entry-accepted      "a rule entry with no recognised action is
//	                               rejected"
//	schema-accepts-loader-rejects "the JSON Schemas ... accept exactly the keys
//	loader-accepts-schema-rejects  the loaders accept ... and vice versa"
//
// Leniences (where the statement is silent nothing is demanded):
//   - only *key-level* acceptance is compared: a loader rejection that is not
//     yaml.v3's "field ... not found in type" and a schema rejection that is not
//     an additionalProperties failure are never reported as disagreements
//     (scalar-type disagreements are listed in the evidence only);
//   - keys are demanded to be rejected only at mapping nodes that are a Go
//     struct on the loader side; at free-form positions (maps, `any`) only
//     agreement between loader and schema is demanded;
//   - "rule entries" are the items of the five unions of the configuration
//     language: `passes`, `builders`, `options`, `inputs`, `output.languages`;
//     an entry with two members is outside the statement; a rule with an
//     action but an empty selector is a value-level matter;
//   - schema-side verdicts on no-action entries are not compared (`{}` has no
//     keys);
//   - a panic inside a loader belongs to C04 and is only counted here.
//
// Preconditions are checked, not assumed: every document an injection is made
// into must itself load and validate; a path document that is rejected for a
// value-level reason is a harness error (exit 2), never a violation.
package main

import (
	"bytes"
	"context"
	"encoding"
	"encoding/json"
	"fmt"
	"os"
	"os/exec"
	"path/filepath"
	"reflect"
	"regexp"
	"runtime"
	"sort"
	"strconv"
	"strings"
	"sync"
	"sync/atomic"

	"github.com/grafana/cog/internal/codegen"
	"github.com/grafana/cog/internal/tools"
	"github.com/grafana/cog/internal/veneers/rewrite"
	cogyaml "github.com/grafana/cog/internal/yaml"
	"github.com/grafana/cog/verifx/vx"
	"github.com/santhosh-tekuri/jsonschema/v5"
	"gopkg.in/yaml.v3"
)

/******************************************************************************
 * Grammar nodes (shared shape for both derivations)
 *****************************************************************************/

type nkind int

const (
	kAny nkind = iota
	kObj
	kMap
	kArr
	kStr
	kBool
	kInt
	kNum
)

func (k nkind) String() string {
	return [...]string{"any", "object", "map", "array", "string", "boolean", "integer", "number"}[k]
}

type Node struct {
	Def    string // definition / struct name ("" when anonymous)
	Kind   nkind
	Closed bool             // kObj: no undeclared key allowed
	Props  map[string]*Node // kObj
	Elem   *Node            // kArr items / kMap values
	GoName map[string]string
}

func (n *Node) keys() []string {
	if n == nil || n.Kind != kObj {
		return nil
	}
	out := make([]string, 0, len(n.Props))
	for k := range n.Props {
		out = append(out, k)
	}
	sort.Strings(out)
	return out
}

/* ---- schema side ---- */

type schemaGrammar struct {
	defs      map[string]any
	memo      map[string]*Node
	unhandled map[string]bool
}

var ignoredKeywords = map[string]bool{"description": true, "$schema": true, "$id": true, "$defs": true, "title": true, "$comment": true}

func newSchemaGrammar(raw []byte) (*schemaGrammar, *Node) {
	var doc map[string]any
	if err := json.Unmarshal(raw, &doc); err != nil {
		fatalf("schema is not JSON: %v", err)
	}
	sg := &schemaGrammar{memo: map[string]*Node{}, unhandled: map[string]bool{}}
	sg.defs, _ = doc["$defs"].(map[string]any)
	return sg, sg.node(doc)
}

func (sg *schemaGrammar) node(raw any) *Node {
	switch v := raw.(type) {
	case nil:
		return &Node{Kind: kAny}
	case bool:
		if !v {
			sg.unhandled["false-schema"] = true
		}
		return &Node{Kind: kAny}
	case map[string]any:
		if ref, ok := v["$ref"].(string); ok {
			name := strings.TrimPrefix(ref, "#/$defs/")
			if n, ok := sg.memo[name]; ok {
				return n
			}
			def, ok := sg.defs[name]
			if !ok {
				fatalf("schema: dangling $ref %q", ref)
			}
			n := &Node{Def: name}
			sg.memo[name] = n
			sg.fill(n, def)
			return n
		}
		n := &Node{}
		sg.fill(n, v)
		return n
	}
	fatalf("schema: unexpected schema value %T", raw)
	return nil
}

func (sg *schemaGrammar) fill(n *Node, raw any) {
	m, ok := raw.(map[string]any)
	if !ok {
		n.Kind = kAny
		return
	}
	for k := range m {
		switch k {
		case "type", "properties", "additionalProperties", "items":
		default:
			if !ignoredKeywords[k] {
				sg.unhandled[k] = true
			}
		}
	}
	typ, _ := m["type"].(string)
	props, hasProps := m["properties"].(map[string]any)
	ap, hasAP := m["additionalProperties"]
	apFalse := hasAP && ap == false
	switch typ {
	case "object":
		if hasProps || apFalse {
			n.Kind, n.Closed, n.Props = kObj, apFalse, map[string]*Node{}
			for k, p := range props {
				n.Props[k] = sg.node(p)
			}
			if hasAP && !apFalse && ap != true {
				n.Elem = sg.node(ap)
			}
			return
		}
		n.Kind = kMap
		if hasAP && ap != true {
			n.Elem = sg.node(ap)
		} else {
			n.Elem = &Node{Kind: kAny}
		}
	case "array":
		n.Kind = kArr
		n.Elem = sg.node(m["items"])
	case "string":
		n.Kind = kStr
	case "boolean":
		n.Kind = kBool
	case "integer":
		n.Kind = kInt
	case "number":
		n.Kind = kNum
	case "":
		n.Kind = kAny
	default:
		sg.unhandled["type:"+typ] = true
		n.Kind = kAny
	}
}

/* ---- loader side (reflection, yaml.v3 naming rules) ---- */

type goGrammar struct {
	memo   map[reflect.Type]*Node
	custom map[string]bool // types with their own YAML/text unmarshalling (opaque)
}

var (
	yamlUnmarshalerT    = reflect.TypeOf((*yaml.Unmarshaler)(nil)).Elem()
	textUnmarshalerT    = reflect.TypeOf((*encoding.TextUnmarshaler)(nil)).Elem()
	oldYamlUnmarshalerT = reflect.TypeOf((*interface {
		UnmarshalYAML(func(any) error) error
	})(nil)).Elem()
)

func defName(t reflect.Type) string {
	if t.Name() == "" {
		return ""
	}
	name := t.Name()
	if t.PkgPath() != "" {
		parts := strings.Split(t.PkgPath(), "/")
		name = tools.UpperCamelCase(parts[len(parts)-1]) + tools.UpperCamelCase(name)
	}
	return name
}

func (gg *goGrammar) node(t reflect.Type) *Node {
	for t.Kind() == reflect.Pointer {
		t = t.Elem()
	}
	for _, it := range []reflect.Type{yamlUnmarshalerT, textUnmarshalerT, oldYamlUnmarshalerT} {
		if t.Implements(it) || reflect.PointerTo(t).Implements(it) {
			gg.custom[t.String()] = true
			if t.Kind() != reflect.Struct {
				return &Node{Kind: kAny, Def: defName(t)}
			}
			// A struct that decodes itself is still presumed to speak the
			// keys of its fields (that is also what the schema generator
			// publishes for it); executing the loader decides whether it does,
			// and whether it stays strict inside its own decoding.
		}
	}
	switch t.Kind() {
	case reflect.Struct:
		if n, ok := gg.memo[t]; ok {
			return n
		}
		n := &Node{Def: defName(t), Kind: kObj, Closed: true, Props: map[string]*Node{}, GoName: map[string]string{}}
		gg.memo[t] = n
		gg.fields(n, t)
		return n
	case reflect.Map:
		return &Node{Kind: kMap, Elem: gg.node(t.Elem())}
	case reflect.Slice, reflect.Array:
		return &Node{Kind: kArr, Elem: gg.node(t.Elem())}
	case reflect.Interface:
		return &Node{Kind: kAny}
	case reflect.String:
		return &Node{Kind: kStr}
	case reflect.Bool:
		return &Node{Kind: kBool}
	case reflect.Int, reflect.Int8, reflect.Int16, reflect.Int32, reflect.Int64,
		reflect.Uint, reflect.Uint8, reflect.Uint16, reflect.Uint32, reflect.Uint64:
		return &Node{Kind: kInt}
	case reflect.Float32, reflect.Float64:
		return &Node{Kind: kNum}
	}
	fatalf("reflection: unsupported kind %s (%s)", t.Kind(), t)
	return nil
}

// fields transcribes yaml.v3's documented struct rules: unexported fields are
// skipped; the key is the first element of the `yaml` tag, or the lower-cased
// field name; "-" skips; ",inline" merges a struct's fields (or opens the
// mapping for an inlined map).
func (gg *goGrammar) fields(n *Node, t reflect.Type) {
	for i := 0; i < t.NumField(); i++ {
		f := t.Field(i)
		if f.PkgPath != "" && !f.Anonymous {
			continue
		}
		tag := f.Tag.Get("yaml")
		if tag == "" && !strings.Contains(string(f.Tag), ":") {
			tag = string(f.Tag)
		}
		if tag == "-" {
			continue
		}
		parts := strings.Split(tag, ",")
		inline := false
		for _, fl := range parts[1:] {
			if fl == "inline" {
				inline = true
			}
		}
		if inline {
			ft := f.Type
			for ft.Kind() == reflect.Pointer {
				ft = ft.Elem()
			}
			switch ft.Kind() {
			case reflect.Struct:
				gg.fields(n, ft)
			case reflect.Map:
				n.Closed = false
				n.Elem = gg.node(ft.Elem())
			default:
				fatalf("reflection: inline field %s.%s of kind %s", t, f.Name, ft.Kind())
			}
			continue
		}
		if f.PkgPath != "" { // unexported embedded, not inlined
			continue
		}
		key := parts[0]
		if key == "" {
			key = strings.ToLower(f.Name)
		}
		n.Props[key] = gg.node(f.Type)
		n.GoName[key] = f.Name
	}
}

/******************************************************************************
 * Joint walk: abstract key paths
 *****************************************************************************/

type pnode struct{ s, g *Node }

func (p pnode) kind() nkind {
	if p.s != nil {
		return p.s.Kind
	}
	return p.g.Kind
}
func (p pnode) def() string {
	if p.s != nil && p.s.Def != "" {
		return p.s.Def
	}
	if p.g != nil {
		return p.g.Def
	}
	return ""
}
func (p pnode) hasKey(k string) bool {
	if p.s != nil && p.s.Kind == kObj {
		if _, ok := p.s.Props[k]; ok {
			return true
		}
	}
	if p.g != nil && p.g.Kind == kObj {
		if _, ok := p.g.Props[k]; ok {
			return true
		}
	}
	return false
}

// isMember: k is a mapping-valued key of the node (a member of a union entry).
func (p pnode) isMember(k string) bool { return p.hasKey(k) && p.child(k).kind() == kObj }

func (p pnode) keys() []string {
	set := map[string]bool{}
	for _, k := range p.s.keys() {
		set[k] = true
	}
	for _, k := range p.g.keys() {
		set[k] = true
	}
	out := make([]string, 0, len(set))
	for k := range set {
		out = append(out, k)
	}
	sort.Strings(out)
	return out
}
func (p pnode) child(k string) pnode {
	var c pnode
	if p.s != nil && p.s.Kind == kObj {
		c.s = p.s.Props[k]
	}
	if p.g != nil && p.g.Kind == kObj {
		c.g = p.g.Props[k]
	}
	return c
}
func (p pnode) elem() pnode {
	var c pnode
	if p.s != nil {
		c.s = p.s.Elem
	}
	if p.g != nil {
		c.g = p.g.Elem
	}
	return c
}

type step struct {
	T byte // 'k' key, 'i' array item, 'm' map value
	K string
}

type kpath struct {
	steps        []step
	nodes        []pnode // nodes[0] = root; nodes[i+1] = node after steps[i]
	cut          bool    // recursion bound reached: node recorded, not expanded
	kindMismatch bool
}

func (p *kpath) end() pnode { return p.nodes[len(p.nodes)-1] }
func (p *kpath) String() string {
	var b strings.Builder
	for i, s := range p.steps {
		switch s.T {
		case 'k':
			if i > 0 {
				b.WriteByte('.')
			}
			b.WriteString(s.K)
		case 'i':
			b.WriteString("[]")
		case 'm':
			b.WriteString("{*}")
		}
	}
	if b.Len() == 0 {
		return "<root>"
	}
	return b.String()
}
func (p *kpath) parent() string {
	if len(p.steps) == 0 {
		return ""
	}
	q := &kpath{steps: p.steps[:len(p.steps)-1]}
	return q.String()
}

// route: the prefix up to and including the first key after the first list
// (the rule kind / input kind / language), or the first key.
func (p *kpath) route() string {
	firstList := -1
	for i, s := range p.steps {
		if s.T == 'i' {
			firstList = i
			break
		}
	}
	for i, s := range p.steps {
		if s.T == 'k' && i > firstList {
			q := &kpath{steps: p.steps[:i+1]}
			return q.String()
		}
	}
	return p.String()
}

// position: "<Def>" of the end node if it is a definition, else "<ParentDef>.<key>[suffix]".
func (p *kpath) lastKeyPos() string {
	suffix := ""
	for i := len(p.steps) - 1; i >= 0; i-- {
		switch p.steps[i].T {
		case 'i':
			suffix = "[]" + suffix
		case 'm':
			suffix = "{*}" + suffix
		case 'k':
			d := p.nodes[i].def()
			if d == "" {
				d = "?"
			}
			return d + "." + p.steps[i].K + suffix
		}
	}
	return "<root>" + suffix
}

func enumerate(root pnode, bound int) []*kpath {
	var out []*kpath
	counts := map[string]int{}
	var rec func(steps []step, nodes []pnode)
	rec = func(steps []step, nodes []pnode) {
		cur := nodes[len(nodes)-1]
		p := &kpath{steps: append([]step(nil), steps...), nodes: append([]pnode(nil), nodes...)}
		out = append(out, p)
		if cur.s != nil && cur.g != nil && cur.s.Kind != cur.g.Kind {
			p.kindMismatch = true
			return
		}
		switch cur.kind() {
		case kObj:
			if d := cur.def(); d != "" {
				if counts[d] >= bound {
					p.cut = true
					return
				}
				counts[d]++
				defer func() { counts[d]-- }()
			}
			for _, k := range cur.keys() {
				rec(append(steps, step{'k', k}), append(nodes, cur.child(k)))
			}
		case kArr:
			rec(append(steps, step{'i', ""}), append(nodes, cur.elem()))
		case kMap:
			rec(append(steps, step{'m', ""}), append(nodes, cur.elem()))
		}
	}
	rec(nil, []pnode{root})
	return out
}

/******************************************************************************
 * Document values, templates and the YAML writer
 *****************************************************************************/

type OMap struct {
	keys []string
	vals map[string]any
}

func newOMap(kv ...any) *OMap {
	m := &OMap{vals: map[string]any{}}
	for i := 0; i+1 < len(kv); i += 2 {
		m.Set(kv[i].(string), kv[i+1])
	}
	return m
}
func (m *OMap) Set(k string, v any) {
	if _, ok := m.vals[k]; !ok {
		m.keys = append(m.keys, k)
	}
	m.vals[k] = v
}

type List struct{ items []any }

var plainKey = regexp.MustCompile(`^[A-Za-z_][A-Za-z0-9_]*$`)

func yamlScalar(v any) (string, bool) {
	switch x := v.(type) {
	case nil:
		return "null", true
	case string:
		return strconv.Quote(x), true
	case bool:
		return strconv.FormatBool(x), true
	case int:
		return strconv.Itoa(x), true
	case float64:
		return strconv.FormatFloat(x, 'g', -1, 64), true
	case *OMap:
		if len(x.keys) == 0 {
			return "{}", true
		}
	case *List:
		if len(x.items) == 0 {
			return "[]", true
		}
	}
	return "", false
}

func yamlLines(v any) []string {
	if s, ok := yamlScalar(v); ok {
		return []string{s}
	}
	var out []string
	switch x := v.(type) {
	case *OMap:
		for _, k := range x.keys {
			key := k
			if !plainKey.MatchString(k) && k != "<<" { // "<<" stays plain: a YAML merge key
				key = strconv.Quote(k)
			}
			if s, ok := yamlScalar(x.vals[k]); ok {
				out = append(out, key+": "+s)
				continue
			}
			out = append(out, key+":")
			for _, l := range yamlLines(x.vals[k]) {
				out = append(out, "  "+l)
			}
		}
	case *List:
		for _, it := range x.items {
			for i, l := range yamlLines(it) {
				if i == 0 {
					out = append(out, "- "+l)
				} else {
					out = append(out, "  "+l)
				}
			}
		}
	default:
		fatalf("yaml writer: unsupported value %T", v)
	}
	return out
}

func toYAML(v any) string { return strings.Join(yamlLines(v), "\n") + "\n" }

// Value-level knowledge needed to make a document *load* (none of it is part
// of the oracle): references have the form pkg.Object / pkg.Object.field, an
// option selector is Object.option, a veneers file names its package, a rule
// needs one action and one selector.
var requiredKeys = map[string][]any{
	"YamlVeneers":             {"package", "pkg"},
	"YamlByNamesSelector":     {"object", "Obj"},
	"YamlReplaceReference":    {"from", "pkg.A", "to", "pkg.B"},
	"YamlAddFields":           {"to", "pkg.A"},
	"YamlNameAnonymousStruct": {"field", "pkg.A.f"},
	"YamlRetypeObject":        {"object", "pkg.A"},
	"YamlHintObject":          {"object", "pkg.A"},
	"YamlAddObject":           {"object", "pkg.A"},
	"YamlDuplicateObject":     {"object", "pkg.A", "as", "pkg.B"},
	"YamlRenameObject":        {"from", "pkg.A"},
	"YamlRetypeField":         {"field", "pkg.A.f"},
}

// Applied only when the path ends at the rule entry itself.
func defaultAction(def string) []any {
	switch def {
	case "YamlCompilerPass":
		return []any{"unspec", newOMap()}
	case "YamlBuilderRule":
		return []any{"omit", newOMap("by_name", "Obj")}
	case "YamlOptionRule":
		return []any{"omit", newOMap("by_name", "Obj.opt")}
	case "CodegenInput":
		return []any{"jsonschema", newOMap()}
	case "CodegenOutputLanguage":
		return []any{"jsonschema", newOMap()}
	}
	return nil
}

var stringHints = map[string]string{
	"YamlReplaceReference.from":       "pkg.A",
	"YamlReplaceReference.to":         "pkg.B",
	"YamlFieldsSetDefault.defaults{}": "pkg.A.f",
	"YamlFieldsSetRequired.fields":    "pkg.A.f",
	"YamlFieldsSetNotRequired.fields": "pkg.A.f",
	"YamlOmitFields.fields":           "pkg.A.f",
	"YamlOmit.objects":                "pkg.A",
	"YamlConstantToEnum.objects":      "pkg.A",
	"YamlAddFields.to":                "pkg.A",
	"YamlNameAnonymousStruct.field":   "pkg.A.f",
	"YamlRetypeObject.object":         "pkg.A",
	"YamlHintObject.object":           "pkg.A",
	"YamlAddObject.object":            "pkg.A",
	"YamlDuplicateObject.object":      "pkg.A",
	"YamlDuplicateObject.as":          "pkg.B",
	"YamlRenameObject.from":           "pkg.A",
	"YamlRetypeField.field":           "pkg.A.f",
	"YamlVeneers.package":             "pkg",
	"AstType.kind":                    "scalar",
	"AstScalarType.scalar_kind":       "string",
	"AstTypeConstraint.op":            ">",
	"YamlByNamesSelector.object":      "Obj",
}

// A type written in a configuration file must be well-formed for the loaders
// (internal/yaml/types.go validateType): known `kind`, the payload matching the
// kind present, enums with scalar-typed valued members, unions with branches,
// constraints with arguments. None of this is oracle material; it only makes
// the documents load.
func wfType() *OMap {
	return newOMap("kind", "scalar", "scalar", newOMap("scalar_kind", "string"))
}

// payload key of ast.Type -> the `kind` that goes with it
var typePayloadKind = map[string]string{
	"scalar": "scalar", "array": "array", "map": "map", "struct": "struct", "enum": "enum", "ref": "ref",
	"constantreference": "constant_ref", "disjunction": "disjunction", "intersection": "intersection",
	"composable_slot": "composable_slot",
}

// typeContext: keys a definition of the type language needs, given the key the
// path continues through (next, "" at the end of the path).
func typeContext(def, next string) []any {
	switch def {
	case "AstType":
		if k, ok := typePayloadKind[next]; ok {
			return []any{"kind", k} // the payload itself is set by the path step
		}
		return []any{"kind", "scalar", "scalar", newOMap("scalar_kind", "string")}
	case "AstScalarType":
		return []any{"scalar_kind", "string"}
	case "AstArrayType":
		return []any{"value_type", wfType()}
	case "AstMapType":
		return []any{"indextype", wfType(), "valuetype", wfType()}
	case "AstEnumType":
		return []any{"values", &List{items: []any{newOMap("type", wfType(), "name", "A", "value", "a")}}}
	case "AstEnumValue":
		return []any{"type", wfType(), "name", "A", "value", "a"}
	case "AstDisjunctionType":
		return []any{"branches", &List{items: []any{wfType()}}}
	case "AstTypeConstraint":
		return []any{"op", ">", "args", &List{items: []any{1}}}
	case "AstStructField":
		return []any{"name", "f", "type", wfType()}
	case "AstArgument":
		return []any{"name", "arg", "type", wfType()}
	case "AstTypedConstant":
		return []any{"type", wfType(), "value", "c"}
	case "YamlAddObject", "YamlRetypeObject", "YamlRetypeField":
		return []any{"as", wfType()}
	}
	return nil
}

// lists the loaders refuse when empty
var nonEmptyLists = map[string]bool{"AstEnumType.values": true, "AstDisjunctionType.branches": true, "AstTypeConstraint.args": true}

func minimal(n pnode, hint string, atEnd bool, next string) any {
	switch n.kind() {
	case kObj:
		m := newOMap()
		d := n.def()
		// selectors, derived from the grammar: a struct with by_builder is an
		// option selector, one with by_object a builder selector
		if n.hasKey("by_builder") {
			m.Set("by_name", "Obj.opt")
		} else if n.hasKey("by_object") {
			m.Set("by_name", "Obj")
		}
		kv := requiredKeys[d]
		for i := 0; i+1 < len(kv); i += 2 {
			m.Set(kv[i].(string), kv[i+1])
		}
		kv = typeContext(d, next)
		for i := 0; i+1 < len(kv); i += 2 {
			m.Set(kv[i].(string), kv[i+1])
		}
		if atEnd || !n.isMember(next) {
			// the path ends at the union entry, or goes on through a key
			// that is not one of its members (`if:` of an input)
			kv = defaultAction(d)
			for i := 0; i+1 < len(kv); i += 2 {
				m.Set(kv[i].(string), kv[i+1])
			}
		}
		return m
	case kMap:
		return newOMap()
	case kArr:
		if nonEmptyLists[hint] {
			return &List{items: []any{minimal(n.elem(), hint, false, "")}}
		}
		return &List{}
	case kStr:
		if h, ok := stringHints[hint]; ok {
			return h
		}
		if strings.HasSuffix(hint, ".by_name") || strings.HasSuffix(hint, ".by_builder") {
			return "Obj.opt" // valid for both selector families
		}
		return "str"
	case kBool:
		return true
	case kInt:
		return 1
	case kNum:
		return 1.5
	}
	return "anyval"
}

// build returns the minimal document reaching p and its end value.
func build(p *kpath) (root any, end any) { return buildSibling(p, -1) }

// buildSibling: as build, and the list entered at step dup (if >= 0) first
// gets a well-formed minimal sibling item, so that the path goes through the
// second item of that list.
func buildSibling(p *kpath, dup int) (root any, end any) {
	nextKey := func(i int) string { // key step following node i (through list/map steps: none)
		if i < len(p.steps) && p.steps[i].T == 'k' {
			return p.steps[i].K
		}
		return ""
	}
	root = minimal(p.nodes[0], "", len(p.steps) == 0, nextKey(0))
	cur := root
	hint := ""
	for i, st := range p.steps {
		child := p.nodes[i+1]
		last := i == len(p.steps)-1
		var cv any
		switch st.T {
		case 'k':
			hint = p.nodes[i].def() + "." + st.K
			cv = minimal(child, hint, last, nextKey(i+1))
			cur.(*OMap).Set(st.K, cv)
		case 'i':
			cv = minimal(child, hint, last, nextKey(i+1))
			l := cur.(*List)
			if i == dup {
				if len(l.items) == 0 {
					l.items = append(l.items, minimal(child, hint, true, ""))
				}
				l.items = append(l.items, cv)
			} else if len(l.items) > 0 { // a list that must not be empty was seeded with one item: the path goes through it
				l.items[len(l.items)-1] = cv
			} else {
				l.items = append(l.items, cv)
			}
		case 'm':
			mk, ok := stringHints[hint+"{}"]
			if !ok {
				mk = "k1"
			}
			cv = minimal(child, hint, last, nextKey(i+1))
			cur.(*OMap).Set(mk, cv)
		}
		cur = cv
	}
	return root, cur
}

/******************************************************************************
 * File kinds: real loaders + published schemas
 *****************************************************************************/

type fileKind struct {
	Name      string
	GoRoot    reflect.Type
	Load      func(paths []string) error
	RuleLists []string // paths of the lists whose items are union ("rule") entries

	schemaPath string
	schema     *jsonschema.Schema
	sg         *schemaGrammar
	gg         *goGrammar
	root       pnode
	paths      []*kpath
}

func fileKinds() []*fileKind {
	return []*fileKind{
		// Loading a pipeline = decoding it and resolving its two unions, the
		// first things `cog generate` / `cog inspect` do (Pipeline.Run): the
		// language entries (OutputLanguages) and the source of every input
		// (Input.InterpolateParameters resolves it without any I/O).
		{Name: "pipeline", GoRoot: reflect.TypeOf(codegen.Pipeline{}), RuleLists: []string{"inputs", "output.languages"}, Load: func(p []string) error {
			for _, f := range p {
				pipeline, err := codegen.PipelineFromFile(f)
				if err != nil {
					return err
				}
				if _, err := pipeline.OutputLanguages(); err != nil {
					return err
				}
				for _, input := range pipeline.Inputs {
					if err := input.InterpolateParameters(func(s string) string { return s }); err != nil {
						return err
					}
				}
			}
			return nil
		}},
		{Name: "compiler_passes", GoRoot: reflect.TypeOf(cogyaml.Compiler{}), RuleLists: []string{"passes"}, Load: func(p []string) error {
			_, err := cogyaml.NewCompilerLoader().PassesFrom(p)
			return err
		}},
		{Name: "veneers", GoRoot: reflect.TypeOf(cogyaml.Veneers{}), RuleLists: []string{"builders", "options"}, Load: func(p []string) error {
			_, err := cogyaml.NewVeneersLoader().RewriterFrom(p, rewrite.Config{})
			return err
		}},
	}
}

func (fk *fileKind) init(repo string, bound int) {
	fk.schemaPath = filepath.Join(repo, "schemas", fk.Name+".json")
	raw, err := os.ReadFile(fk.schemaPath)
	if err != nil {
		fatalf("reading published schema: %v", err)
	}
	c := jsonschema.NewCompiler()
	c.Draft = jsonschema.Draft2020
	url := "mem://c20/" + fk.Name + ".json"
	// the $id is dropped for compilation only so that nothing is ever resolved remotely
	var asMap map[string]any
	if err := json.Unmarshal(raw, &asMap); err != nil {
		fatalf("%s: %v", fk.schemaPath, err)
	}
	delete(asMap, "$id")
	noID, _ := json.Marshal(asMap)
	if err := c.AddResource(url, bytes.NewReader(noID)); err != nil {
		fatalf("%s: %v", fk.schemaPath, err)
	}
	fk.schema, err = c.Compile(url)
	if err != nil {
		fatalf("compiling %s: %v", fk.schemaPath, err)
	}
	var sroot *Node
	fk.sg, sroot = newSchemaGrammar(raw)
	fk.gg = &goGrammar{memo: map[reflect.Type]*Node{}, custom: map[string]bool{}}
	fk.root = pnode{s: sroot, g: fk.gg.node(fk.GoRoot)}
	fk.paths = enumerate(fk.root, bound)
}

var (
	scratch string
	fileSeq atomic.Int64
	loads   atomic.Int64
)

var scratchRe = regexp.MustCompile(`/var/tmp/verif\.c20\.[A-Za-z0-9]+/[0-9]+(\.d/rules|\.pipeline)?\.yaml`)

func normErr(s string) string {
	s = scratchRe.ReplaceAllString(s, "<file>")
	s = regexp.MustCompile(`%!s\(\*os\.File=0x[0-9a-f]+\)`).ReplaceAllString(s, "<reader>")
	s = regexp.MustCompile(`line [0-9]+`).ReplaceAllString(s, "line N")
	return strings.Join(strings.Fields(s), " ")
}

// runLoader writes the document and executes the real loader on the file.
func runLoader(fk *fileKind, texts ...string) (accepted bool, class string, msg string) {
	var paths []string
	for _, text := range texts {
		path := filepath.Join(scratch, fmt.Sprintf("%d.yaml", fileSeq.Add(1)))
		if err := os.WriteFile(path, []byte(text), 0o600); err != nil {
			fatalf("scratch write: %v", err)
		}
		defer os.Remove(path)
		paths = append(paths, path)
	}
	loads.Add(1)
	var err error
	if p := vx.Catch(func() { err = fk.Load(paths) }); p != nil {
		return false, "panic", normErr(fmt.Sprint(p))
	}
	if err == nil {
		return true, "ok", ""
	}
	msg = normErr(err.Error())
	switch {
	case strings.Contains(msg, "not found in type"):
		class = "unknown-field"
	case strings.Contains(msg, "cannot unmarshal"), strings.Contains(msg, "cannot construct"):
		class = "type"
	case strings.Contains(msg, "empty rule"), strings.Contains(msg, "empty compiler pass"), strings.Contains(msg, "empty input"), strings.Contains(msg, "empty language"):
		class = "no-action"
	default:
		class = "value"
	}
	return false, class, msg
}

func plain(v any) any {
	switch x := v.(type) {
	case map[string]any:
		for k, e := range x {
			x[k] = plain(e)
		}
		return x
	case map[any]any:
		m := map[string]any{}
		for k, e := range x {
			m[fmt.Sprint(k)] = plain(e)
		}
		return m
	case []any:
		for i, e := range x {
			x[i] = plain(e)
		}
		return x
	}
	return v
}

// runSchema validates the *file content* (parsed as generic YAML, as an editor
// does) against the published schema.
func runSchema(fk *fileKind, text string) (accepted bool, class string, msg string, asJSON any) {
	var v any
	if err := yaml.Unmarshal([]byte(text), &v); err != nil {
		fatalf("generated document is not YAML: %v\n%s", err, text)
	}
	v = plain(v)
	err := fk.schema.Validate(v)
	if err == nil {
		return true, "ok", "", v
	}
	ve, ok := err.(*jsonschema.ValidationError)
	if !ok {
		return false, "other", err.Error(), v
	}
	keyLevel, other := 0, 0
	var first string
	var walk func(e *jsonschema.ValidationError)
	walk = func(e *jsonschema.ValidationError) {
		if len(e.Causes) == 0 {
			if strings.HasSuffix(e.KeywordLocation, "/additionalProperties") {
				keyLevel++
			} else {
				other++
			}
			if first == "" {
				first = e.InstanceLocation + ": " + e.Message
			}
		}
		for _, c := range e.Causes {
			walk(c)
		}
	}
	walk(ve)
	switch {
	case keyLevel > 0 && other == 0:
		class = "unknown-key"
	case keyLevel == 0:
		class = "type"
	default:
		class = "mixed"
	}
	return false, class, first, v
}

/******************************************************************************
 * Composition routes: the ways a pipeline reaches pass and veneer files
 *****************************************************************************/

// A schema-transformation or veneer file is rarely handed to its loader
// directly: `cog generate` reaches it through a pipeline — the pipeline-level
// `transformations.schemas` / `transformations.builders` lists and the
// `transformations` list of EVERY input kind. Strict decoding is demanded of
// the configuration as a whole, so the documents of these two file kinds are
// also pushed through every such route: a real pipeline file is written next
// to the document, and the pipeline is loaded the way Pipeline.Run does before
// generating anything (PipelineFromFile, OutputLanguages, LoadSchemas,
// ContextForLanguage), against small real inputs of each kind created in the
// scratch directory. Only the negative clauses are judged through a route (an
// undeclared key / a no-member entry must make the load fail); valid documents
// are only counted (a pass that does not apply to the fixture is a value-level
// matter).
type viaRoute struct {
	Name string // e.g. "pipeline inputs[].cue.transformations"
	FK   string // file kind of the documents that go through it
	dir  bool   // the pipeline names a directory of files (veneers)
	mk   func(target string) *OMap
}

// value-level knowledge: how to write an input of each kind that really loads
// (package pkg, objects A{f} and B, which is what the templates refer to)
func inputFixture(kind, fx string) *OMap {
	switch kind {
	case "jsonschema":
		return newOMap("path", filepath.Join(fx, "pkg.json"), "package", "pkg")
	case "openapi":
		return newOMap("path", filepath.Join(fx, "openapi.json"), "package", "pkg")
	case "cue":
		return newOMap("entrypoint", filepath.Join(fx, "pkg"))
	case "kindsys_core":
		return newOMap("entrypoint", filepath.Join(fx, "corekind"), "package", "pkg")
	case "kindsys_composable":
		return newOMap("entrypoint", filepath.Join(fx, "composablekind"), "package", "pkg")
	case "kind_registry":
		return newOMap("path", filepath.Join(fx, "registry"), "version", "next")
	}
	return nil
}

func makeFixtures() string {
	fx := filepath.Join(scratch, "fx")
	write := func(name, content string) {
		p := filepath.Join(fx, name)
		if err := os.MkdirAll(filepath.Dir(p), 0o755); err != nil {
			fatalf("fixtures: %v", err)
		}
		if err := os.WriteFile(p, []byte(content), 0o600); err != nil {
			fatalf("fixtures: %v", err)
		}
	}
	write("pkg.json", `{"$schema":"http://json-schema.org/draft-07/schema#","definitions":{"A":{"type":"object","properties":{"f":{"type":"string"}}},"B":{"type":"object","properties":{"g":{"type":"string"}}}}}`)
	write("openapi.json", `{"openapi":"3.0.0","info":{"title":"pkg","version":"1.0.0"},"paths":{},"components":{"schemas":{"A":{"type":"object","properties":{"f":{"type":"string"}}},"B":{"type":"object","properties":{"g":{"type":"string"}}}}}}`)
	write("pkg/pkg.cue", "package pkg\n\nA: {\n\tf: string\n}\n\nB: {\n\tg: string\n}\n")
	core := "package kind\n\nname: \"A\"\nlineage: schemas: [{\n\tschema: {\n\t\tA: {\n\t\t\tf: string\n\t\t}\n\t\tB: {\n\t\t\tg: string\n\t\t}\n\t}\n}]\n"
	write("corekind/kind.cue", core)
	write("composablekind/kind.cue", "package grafanaplugin\n\nschemaInterface: \"PanelCfg\"\nname: \"DemoPanelCfg\"\nlineage: schemas: [{\n\tschema: {\n\t\tOptions: {\n\t\t\tf: string\n\t\t}\n\t}\n}]\n")
	write("registry/grafana/next/core/a/kind.cue", core)
	if err := os.MkdirAll(filepath.Join(fx, "registry/grafana/next/composable"), 0o755); err != nil {
		fatalf("fixtures: %v", err)
	}
	return fx
}

// viaRoutes derives the routes from the pipeline grammar: every member of the
// input union that has a `transformations` key, plus the two pipeline-level lists.
func viaRoutes(pipeline *fileKind, fx string) []*viaRoute {
	var routes []*viaRoute
	base := func() *OMap {
		return newOMap("inputs", &List{items: []any{newOMap("jsonschema", inputFixture("jsonschema", fx))}})
	}
	if pipeline.root.child("transformations").hasKey("schemas") {
		routes = append(routes, &viaRoute{Name: "pipeline transformations.schemas", FK: "compiler_passes", mk: func(t string) *OMap {
			m := base()
			m.Set("transformations", newOMap("schemas", &List{items: []any{t}}))
			return m
		}})
	}
	entry := pipeline.root.child("inputs").elem()
	for _, k := range entry.keys() {
		k := k
		if !entry.isMember(k) || !entry.child(k).hasKey("transformations") {
			continue
		}
		if inputFixture(k, fx) == nil {
			fatalf("input kind %q has a `transformations` list but the harness has no fixture for it (inputFixture)", k)
		}
		routes = append(routes, &viaRoute{Name: "pipeline inputs[]." + k + ".transformations", FK: "compiler_passes", mk: func(t string) *OMap {
			in := inputFixture(k, fx)
			in.Set("transformations", &List{items: []any{t}})
			return newOMap("inputs", &List{items: []any{newOMap(k, in)}})
		}})
	}
	if pipeline.root.child("transformations").hasKey("builders") {
		routes = append(routes, &viaRoute{Name: "pipeline transformations.builders", FK: "veneers", dir: true, mk: func(t string) *OMap {
			m := base()
			m.Set("transformations", newOMap("builders", &List{items: []any{t}}))
			m.Set("output", newOMap("types", true, "builders", true, "languages", &List{items: []any{newOMap("go", newOMap("package_root", "example.com/out"))}}))
			return m
		}})
	}
	return routes
}

// loadPipelineClosure: everything Pipeline.Run loads before generating code.
func loadPipelineClosure(path string) error {
	pipeline, err := codegen.PipelineFromFile(path)
	if err != nil {
		return err
	}
	targets, err := pipeline.OutputLanguages()
	if err != nil {
		return err
	}
	schemas, err := pipeline.LoadSchemas(context.Background())
	if err != nil {
		return err
	}
	names := make([]string, 0, len(targets))
	for n := range targets {
		names = append(names, n)
	}
	sort.Strings(names)
	for _, n := range names {
		if _, err := pipeline.ContextForLanguage(targets[n], schemas); err != nil {
			return err
		}
	}
	return nil
}

type viaCase struct {
	route     *viaRoute
	c         *docCase
	L         bool
	lclass    string
	lmsg      string
	pipelineY string
}

func runVia(route *viaRoute, doc string) (accepted bool, class, msg, pipelineY string) {
	n := fileSeq.Add(1)
	target := filepath.Join(scratch, fmt.Sprintf("%d.yaml", n))
	cleanup := target
	if route.dir {
		cleanup = filepath.Join(scratch, fmt.Sprintf("%d.d", n))
		if err := os.MkdirAll(cleanup, 0o755); err != nil {
			fatalf("scratch: %v", err)
		}
		target = filepath.Join(cleanup, "rules.yaml")
	}
	defer os.RemoveAll(cleanup)
	if err := os.WriteFile(target, []byte(doc), 0o600); err != nil {
		fatalf("scratch write: %v", err)
	}
	ref := target
	if route.dir {
		ref = cleanup
	}
	pipelineY = toYAML(route.mk(ref))
	ppath := filepath.Join(scratch, fmt.Sprintf("%d.pipeline.yaml", n))
	if err := os.WriteFile(ppath, []byte(pipelineY), 0o600); err != nil {
		fatalf("scratch write: %v", err)
	}
	defer os.Remove(ppath)
	loads.Add(1)
	var err error
	if p := vx.Catch(func() { err = loadPipelineClosure(ppath) }); p != nil {
		return false, "panic", normErr(fmt.Sprint(p)), pipelineY
	}
	if err == nil {
		return true, "ok", "", pipelineY
	}
	msg = normErr(err.Error())
	switch {
	case strings.Contains(msg, "not found in type"):
		class = "unknown-field"
	case strings.Contains(msg, "cannot unmarshal"), strings.Contains(msg, "cannot construct"):
		class = "type"
	case strings.Contains(msg, "empty rule"), strings.Contains(msg, "empty compiler pass"):
		class = "no-action"
	default:
		class = "value"
	}
	return false, class, msg, pipelineY
}

/******************************************************************************
 * Cases
 *****************************************************************************/

type docCase struct {
	Family string `json:"family"`
	FK     string `json:"file_kind"`
	ID     string `json:"id"` // witness
	Path   string `json:"path"`
	YAML   string `json:"yaml"`
	Base   string `json:"base_yaml,omitempty"`
	Key    string `json:"key,omitempty"` // injected key / entry form
	// valid files of the same kind loaded in the same batch, before / after the document
	Before string `json:"file_loaded_before,omitempty"`
	After  string `json:"file_loaded_after,omitempty"`
	// static facts about the node judged
	LoaderClosed bool `json:"loader_closed"`
	SchemaClosed bool `json:"schema_closed"`
	DeclS        bool `json:"declared_by_schema"`
	DeclG        bool `json:"declared_by_loader"`

	fk     *fileKind
	p      *kpath
	size   int
	kindAt string   // "<file kind>:<route>:<position>"
	needOK []string // path documents that must load for this case to be judged

	L, S           bool
	lclass, sclass string
	lmsg, smsg     string
	asJSON         any
	pyKnown, pyS   bool
}

const unknownKey = "zz_unknown_key"

func buildCases(fks []*fileKind) []*docCase {
	var out []*docCase
	for _, fk := range fks {
		for _, p := range fk.paths {
			e := p.end()
			ps := p.String()
			base, _ := build(p)
			baseY := toYAML(base)
			common := func(family, id string) *docCase {
				return &docCase{Family: family, FK: fk.Name, ID: id, Path: ps, fk: fk, p: p, size: len(p.steps) * 8,
					DeclS: e.s != nil, DeclG: e.g != nil,
					LoaderClosed: e.g != nil && e.g.Kind == kObj && e.g.Closed,
					SchemaClosed: e.s != nil && e.s.Kind == kObj && e.s.Closed}
			}
			if p.kindMismatch {
				// one document per side's idea of the value
				for _, side := range []string{"schema", "loader"} {
					q := &kpath{steps: p.steps, nodes: append([]pnode(nil), p.nodes...)}
					if side == "schema" {
						q.nodes[len(q.nodes)-1] = pnode{s: e.s}
					} else {
						q.nodes[len(q.nodes)-1] = pnode{g: e.g}
					}
					d, _ := build(q)
					c := common("path", fmt.Sprintf("path:%s:%s#%s-typed", fk.Name, ps, side))
					c.YAML = toYAML(d)
					c.kindAt = fk.Name + ":" + p.route() + ":" + p.lastKeyPos()
					c.Key = side
					out = append(out, c)
				}
				continue
			}
			c := common("path", fmt.Sprintf("path:%s:%s", fk.Name, ps))
			c.YAML = baseY
			c.kindAt = fk.Name + ":" + p.route() + ":" + p.lastKeyPos()
			out = append(out, c)

			switch e.kind() {
			case kAny:
				d, _ := build(p)
				setEnd(d, p, newOMap("zz_free", 1))
				c := common("free", fmt.Sprintf("free:%s:%s", fk.Name, ps))
				c.YAML, c.Base = toYAML(d), baseY
				c.kindAt = fk.Name + ":" + p.route() + ":" + p.lastKeyPos()
				out = append(out, c)
			case kObj:
				pos := e.def()
				if pos == "" {
					pos = p.lastKeyPos()
				}
				for _, iv := range injectVariants(e) {
					d, end := build(p)
					iv.apply(end.(*OMap))
					fam := "inject"
					if iv.merge {
						fam = "merge"
					}
					c := common(fam, fmt.Sprintf("%s:%s:%s+%s", fam, fk.Name, ps, iv.name))
					c.YAML, c.Base, c.Key = toYAML(d), baseY, iv.name
					c.kindAt = fk.Name + ":" + p.route() + ":" + pos
					c.size = len(p.steps)*8 + iv.rank
					out = append(out, c)
				}
				// the same undeclared key in the SECOND item of each list the path goes through
				for j, st := range p.steps {
					if st.T != 'i' {
						continue
					}
					lp := (&kpath{steps: p.steps[:j]}).String()
					d, end := buildSibling(p, j)
					end.(*OMap).Set(unknownKey, 1)
					name := unknownKey + " (2nd item of " + lp + ")"
					c := common("inject", fmt.Sprintf("inject:%s:%s+%s", fk.Name, ps, name))
					c.YAML, c.Base, c.Key = toYAML(d), baseY, name
					c.kindAt = fk.Name + ":" + p.route() + ":" + pos
					c.size = len(p.steps)*8 + 7
					out = append(out, c)
				}
				// ... and in a file loaded in the same batch as a valid file (veneers directories, lists of pass files)
				if fk.Name != "pipeline" {
					valid, _ := build(fk.paths[0])
					for _, second := range []bool{true, false} {
						d, end := build(p)
						end.(*OMap).Set(unknownKey, 1)
						name := unknownKey + " (1st file of a batch of 2)"
						if second {
							name = unknownKey + " (2nd file of a batch of 2)"
						}
						c := common("inject", fmt.Sprintf("inject:%s:%s+%s", fk.Name, ps, name))
						c.YAML, c.Base, c.Key = toYAML(d), baseY, name
						if second {
							c.Before = toYAML(valid)
						} else {
							c.After = toYAML(valid)
						}
						c.kindAt = fk.Name + ":" + p.route() + ":" + pos
						c.size = len(p.steps)*8 + 7
						out = append(out, c)
					}
				}
				// aliases: spellings a user coming from the Go source / JSON might try
				if e.g != nil && e.g.Kind == kObj {
					seen := map[string]bool{}
					for _, k := range e.g.keys() {
						gn := e.g.GoName[k]
						for _, alias := range []string{gn, strings.ToLower(gn), lowerFirst(gn), strings.ToUpper(k), strings.ReplaceAll(k, "_", "-"), strings.ReplaceAll(k, "_", "")} {
							if alias == "" || seen[alias] || e.hasKey(alias) {
								continue
							}
							seen[alias] = true
							d, end := build(p)
							end.(*OMap).Set(alias, minimal(pnode{g: e.g.Props[k]}, e.def()+"."+k, true, ""))
							c := common("alias", fmt.Sprintf("alias:%s:%s+%s", fk.Name, ps, alias))
							c.YAML, c.Base, c.Key = toYAML(d), baseY, alias
							c.size = len(p.steps)*8 + 6
							c.kindAt = fk.Name + ":" + p.route() + ":" + pos
							out = append(out, c)
						}
					}
				}
			}
		}
		// union ("rule") entries with no recognised member, alone and among well-formed siblings
		for _, lp := range fk.RuleLists {
			var listPath *kpath
			for _, p := range fk.paths {
				if p.String() == lp {
					listPath = p
				}
			}
			if listPath == nil || listPath.end().kind() != kArr {
				continue // the list itself is gone: the path family reports that
			}
			entry := listPath.end().elem()
			entryDef := entry.def()
			type form struct {
				fam, name string
				v         func() any
			}
			forms := []form{{"noaction", "{}", func() any { return newOMap() }}, {"nullentry", "null", func() any { return nil }}}
			var members []string
			for _, k := range entry.keys() {
				k := k
				if entry.child(k).kind() == kObj {
					members = append(members, k)
					forms = append(forms, form{"nullaction", "{" + k + ": null}", func() any { return newOMap(k, nil) }})
				} else { // an entry that only sets a key that is not a member of the union (`if:`)
					forms = append(forms, form{"noaction", "{" + k + ": …}", func() any { return newOMap(k, minimal(entry.child(k), entryDef+"."+k, true, "")) }})
				}
			}
			wellFormed := func(k string) any { return newOMap(k, minimal(entry.child(k), entryDef+"."+k, true, "")) }
			base, _ := build(listPath)
			baseY := toYAML(base)
			add := func(f form, shape string, rank int, need []string, items func() []any, before, after string) {
				d, end := build(listPath)
				end.(*List).items = items()
				id := fmt.Sprintf("%s:%s:%s = %s", f.fam, fk.Name, lp, shape)
				out = append(out, &docCase{Family: f.fam, FK: fk.Name, ID: id, Path: lp + "[]", YAML: toYAML(d), Base: baseY, Key: f.name,
					Before: before, After: after, fk: fk, size: rank*1000 + len(shape), needOK: append([]string{lp}, need...),
					kindAt: fk.Name + ":" + lp + "[]", DeclS: true, DeclG: true})
			}
			for _, f := range forms {
				f := f
				add(f, "["+f.name+"]", 0, nil, func() []any { return []any{f.v()} }, "", "")
				add(f, "["+f.name+", "+f.name+"]", 3, nil, func() []any { return []any{f.v(), f.v()} }, "", "")
				for _, k := range members {
					k := k
					need := []string{lp + "[]." + k}
					add(f, "[{"+k+"}, "+f.name+"]", 1, need, func() []any { return []any{wellFormed(k), f.v()} }, "", "")
					add(f, "["+f.name+", {"+k+"}]", 1, need, func() []any { return []any{f.v(), wellFormed(k)} }, "", "")
				}
				if len(members) > 0 {
					k := members[0]
					need := []string{lp + "[]." + k}
					add(f, "[{"+k+"}, "+f.name+", {"+k+"}]", 2, need, func() []any { return []any{wellFormed(k), f.v(), wellFormed(k)} }, "", "")
					if fk.Name != "pipeline" { // among the files of one batch
						v, vend := build(listPath)
						vend.(*List).items = []any{wellFormed(k)}
						valid := toYAML(v)
						add(f, "["+f.name+"] (2nd file of a batch of 2)", 2, need, func() []any { return []any{f.v()} }, valid, "")
						add(f, "["+f.name+"] (1st file of a batch of 2)", 2, need, func() []any { return []any{f.v()} }, "", valid)
					}
				}
			}
		}
	}
	return out
}

type injectVariant struct {
	name  string
	rank  int
	merge bool
	apply func(m *OMap)
}

func lowerFirst(s string) string {
	if s == "" {
		return s
	}
	return strings.ToLower(s[:1]) + s[1:]
}

// injectVariants: the undeclared key with each value shape, appended or put
// first, and (merge) brought in through a YAML merge key.
func injectVariants(e pnode) []injectVariant {
	front := func(m *OMap, k string, v any) {
		m.Set(k, v)
		m.keys = append([]string{k}, m.keys[:len(m.keys)-1]...)
	}
	return []injectVariant{
		{name: unknownKey, rank: 0, apply: func(m *OMap) { m.Set(unknownKey, 1) }},
		{name: unknownKey + "=null", rank: 1, apply: func(m *OMap) { m.Set(unknownKey, nil) }},
		{name: unknownKey + "={a: 1}", rank: 2, apply: func(m *OMap) { m.Set(unknownKey, newOMap("a", 1)) }},
		{name: unknownKey + "=[1]", rank: 3, apply: func(m *OMap) { m.Set(unknownKey, &List{items: []any{1}}) }},
		{name: unknownKey + " (first key)", rank: 4, apply: func(m *OMap) { front(m, unknownKey, 1) }},
		{name: "<<: {" + unknownKey + ": 1}", rank: 5, merge: true, apply: func(m *OMap) { m.Set("<<", newOMap(unknownKey, 1)) }},
	}
}

func fatalf(format string, a ...any) {
	if scratch != "" {
		os.RemoveAll(scratch)
	}
	vx.Fatalf(format, a...)
}

func setEnd(root any, p *kpath, v any) {
	// replace the value at the end of p (p has at least one step when called on a non-root)
	if len(p.steps) == 0 {
		fatalf("setEnd on root")
	}
	cur := root
	for i, st := range p.steps {
		last := i == len(p.steps)-1
		switch st.T {
		case 'k':
			if last {
				cur.(*OMap).Set(st.K, v)
				return
			}
			cur = cur.(*OMap).vals[st.K]
		case 'i':
			l := cur.(*List)
			if last {
				l.items[len(l.items)-1] = v
				return
			}
			cur = l.items[len(l.items)-1]
		case 'm':
			m := cur.(*OMap)
			k := m.keys[len(m.keys)-1]
			if last {
				m.Set(k, v)
				return
			}
			cur = m.vals[k]
		}
	}
}

func execute(c *docCase) {
	var batch []string
	if c.Before != "" {
		batch = append(batch, c.Before)
	}
	batch = append(batch, c.YAML)
	if c.After != "" {
		batch = append(batch, c.After)
	}
	c.L, c.lclass, c.lmsg = runLoader(c.fk, batch...)
	c.S, c.sclass, c.smsg, c.asJSON = runSchema(c.fk, c.YAML)
}

/******************************************************************************
 * Independent second validator (Python jsonschema), optional
 *****************************************************************************/

const pyScript = `import json, sys
from jsonschema import Draft202012Validator
req = json.load(open(sys.argv[1]))
vs = {}
for k, p in req["schemas"].items():
    s = json.load(open(p)); s.pop("$id", None)
    vs[k] = Draft202012Validator(s)
json.dump([vs[d["kind"]].is_valid(d["doc"]) for d in req["docs"]], open(sys.argv[2], "w"))
`

func pythonCrossCheck(fks []*fileKind, cases []*docCase) string {
	py, err := exec.LookPath("python3-vt")
	if err != nil {
		return "unavailable (python3-vt not found)"
	}
	type pd struct {
		Kind string `json:"kind"`
		Doc  any    `json:"doc"`
	}
	req := struct {
		Schemas map[string]string `json:"schemas"`
		Docs    []pd              `json:"docs"`
	}{Schemas: map[string]string{}}
	for _, fk := range fks {
		req.Schemas[fk.Name] = fk.schemaPath
	}
	for _, c := range cases {
		req.Docs = append(req.Docs, pd{c.FK, c.asJSON})
	}
	in, outp, script := filepath.Join(scratch, "py-in.json"), filepath.Join(scratch, "py-out.json"), filepath.Join(scratch, "validate.py")
	b, err := json.Marshal(req)
	if err != nil {
		return "unavailable (" + err.Error() + ")"
	}
	os.WriteFile(in, b, 0o600)
	os.WriteFile(script, []byte(pyScript), 0o600)
	cmd := exec.Command(py, "-W", "ignore", script, in, outp)
	if o, err := cmd.CombinedOutput(); err != nil {
		return "unavailable (" + normErr(err.Error()+" "+string(o)) + ")"
	}
	var verdicts []bool
	ob, _ := os.ReadFile(outp)
	if err := json.Unmarshal(ob, &verdicts); err != nil || len(verdicts) != len(cases) {
		return "unavailable (bad output)"
	}
	for i, c := range cases {
		c.pyKnown, c.pyS = true, verdicts[i]
	}
	return "ok"
}

/******************************************************************************
 * Judgement
 *****************************************************************************/

type verdict struct {
	clause string
	what   string
}

// judgeInjected: the clauses for a document that is a loading base plus one
// undeclared key (inject, alias, free) — also used by --replay.
func judgeInjected(c *docCase, loaderBaseOK, schemaBaseOK bool) []verdict {
	if c.lclass == "panic" {
		return nil
	}
	if c.Family != "free" && loaderBaseOK && c.LoaderClosed && c.L {
		return []verdict{{"unknown-key-accepted", fmt.Sprintf("%s file: undeclared key %q at %s is silently accepted by the loader (schema verdict: accepted=%v)", c.FK, c.Key, c.Path, c.S)}}
	}
	if loaderBaseOK && schemaBaseOK && c.L != c.S {
		what := "undeclared key " + strconv.Quote(c.Key)
		if c.Family == "free" {
			what = "a free-form mapping value"
		}
		if c.S && c.lclass == "unknown-field" {
			return []verdict{{"schema-accepts-loader-rejects", fmt.Sprintf("%s file: %s at %s validates against the published schema but the loader rejects it: %s", c.FK, what, c.Path, c.lmsg)}}
		}
		if c.L && (c.sclass == "unknown-key" || c.sclass == "mixed") {
			return []verdict{{"loader-accepts-schema-rejects", fmt.Sprintf("%s file: %s at %s loads but the published schema rejects it: %s", c.FK, what, c.Path, c.smsg)}}
		}
	}
	return nil
}

func judgeNoAction(c *docCase) []verdict {
	if c.L {
		clause := "no-action-entry-accepted"
		switch c.Family {
		case "nullaction":
			clause = "null-action-entry-accepted"
		case "nullentry":
			clause = "null-entry-silently-dropped"
		}
		if c.Family == "nullentry" {
			return []verdict{{clause, fmt.Sprintf("%s file: an empty rule entry (`- null`, i.e. a bare `-`) in %s has no action; the loader silently drops it instead of rejecting it like `- {}` (published schema accepts it: %v)", c.FK, c.Path, c.S)}}
		}
		shape := c.ID[strings.Index(c.ID, " = ")+3:]
		return []verdict{{clause, fmt.Sprintf("%s file: entry %s names no member of the union %s (list written %s) but the configuration loads: the entry is silently ignored", c.FK, c.Key, c.Path, shape)}}
	}
	return nil
}

const valueLevelMark = "value-level\x00"

// Positions that cannot be instantiated so that the loader accepts them: the
// type of an enum member must be a scalar, so the non-scalar payloads of
// enum.values[].type only exist in documents the loader refuses.
var expectedUnloadable = regexp.MustCompile(`enum\.values\[\]\.type\.(array|map|struct|enum|ref|constantreference|disjunction|intersection|composable_slot)$`)

func judgePath(c *docCase) (v []verdict, typeLevel string, precondition string) {
	switch {
	case c.L && c.S:
	case !c.L && c.S:
		switch c.lclass {
		case "unknown-field":
			v = append(v, verdict{"schema-accepts-loader-rejects", fmt.Sprintf("%s file: key path %s is declared by the published schema but the loader rejects it: %s", c.FK, c.Path, c.lmsg)})
		case "type":
			typeLevel = fmt.Sprintf("%s:%s schema accepts, loader: %s", c.FK, c.Path, c.lmsg)
		case "panic":
		default:
			// schema accepts, loader rejects for a value-level reason: outside
			// the key-level claim; the caller counts it as blocked
			precondition = valueLevelMark + fmt.Sprintf("%s: %s\n%s", c.ID, c.lmsg, c.YAML)
		}
	case c.L && !c.S:
		switch c.sclass {
		case "unknown-key", "mixed":
			v = append(v, verdict{"loader-accepts-schema-rejects", fmt.Sprintf("%s file: key path %s is accepted by the loader but the published schema rejects it: %s", c.FK, c.Path, c.smsg)})
		default:
			typeLevel = fmt.Sprintf("%s:%s loader accepts, schema: %s", c.FK, c.Path, c.smsg)
		}
	default:
		if c.lclass == "unknown-field" && (c.sclass == "unknown-key" || c.sclass == "mixed") {
			precondition = fmt.Sprintf("%s: declared key path rejected as unknown by BOTH sides (grammar derivation bug?): %s / %s\n%s", c.ID, c.lmsg, c.smsg, c.YAML)
		} else if c.lclass != "panic" {
			typeLevel = fmt.Sprintf("%s:%s both reject: loader: %s; schema: %s", c.FK, c.Path, c.lmsg, c.smsg)
		}
	}
	return
}

/******************************************************************************
 * main
 *****************************************************************************/

func main() {
	r := vx.Start("C20")
	r.PerKindSmallest = true

	var err error
	os.MkdirAll("/var/tmp", 0o755)
	scratch, err = os.MkdirTemp("/var/tmp", "verif.c20.")
	if err != nil {
		fatalf("scratch dir: %v", err)
	}
	code := run(r)
	os.RemoveAll(scratch)
	os.Exit(code)
}

func run(r *vx.Run) int {
	bound := 1
	if r.Thorough() {
		bound = 2
	}
	fks := fileKinds()

	if r.Replay != "" {
		return replay(r, fks)
	}
	for _, fk := range fks {
		fk.init(r.Repo, bound)
	}
	cases := buildCases(fks)

	// execute everything (real loaders, real schema) in parallel
	var wg sync.WaitGroup
	ch := make(chan *docCase)
	for w := 0; w < runtime.NumCPU(); w++ {
		wg.Add(1)
		go func() {
			defer wg.Done()
			for c := range ch {
				execute(c)
			}
		}()
	}
	for _, c := range cases {
		ch <- c
	}
	close(ch)
	wg.Wait()
	pyStatus := pythonCrossCheck(fks, cases)

	// composition routes: the same documents reached through a pipeline
	fx := makeFixtures()
	routes := viaRoutes(fks[0], fx)
	byName := map[string]*fileKind{}
	for _, fk := range fks {
		byName[fk.Name] = fk
	}
	var viaCases []*viaCase
	var routesUnavailable []string
	for _, route := range routes {
		// sanity: a valid document loads through the route (the fixture works)
		fk := byName[route.FK]
		valid, vend := build(fk.paths[0])
		if len(fk.RuleLists) > 0 {
			for _, p := range fk.paths {
				if p.String() == fk.RuleLists[0]+"[]" {
					valid, vend = build(p)
				}
			}
		}
		_ = vend
		if okv, class, msg, py := runVia(route, toYAML(valid)); !okv {
			if class == "unknown-field" || class == "type" {
				// the pipeline itself refuses keys the harness took from the
				// grammar: a key-level defect that the pipeline's own families
				// report; the route cannot be exercised on this tree
				routesUnavailable = append(routesUnavailable, route.Name+": "+msg)
				continue
			}
			fatalf("route %q: a valid %s document does not load through it (fixture out of date?): %s\n--- pipeline\n%s--- document\n%s", route.Name, route.FK, msg, py, toYAML(valid))
		}
		for _, c := range cases {
			if c.FK != route.FK || c.Before != "" || c.After != "" {
				continue
			}
			switch c.Family {
			case "path", "inject", "merge", "noaction", "nullaction", "nullentry":
				viaCases = append(viaCases, &viaCase{route: route, c: c})
			}
		}
	}
	vch := make(chan *viaCase)
	for w := 0; w < runtime.NumCPU(); w++ {
		wg.Add(1)
		go func() {
			defer wg.Done()
			for v := range vch {
				v.L, v.lclass, v.lmsg, v.pipelineY = runVia(v.route, v.c.YAML)
			}
		}()
	}
	for _, v := range viaCases {
		vch <- v
	}
	close(vch)
	wg.Wait()

	// judge, shortest paths first, deterministically
	sort.SliceStable(cases, func(i, j int) bool {
		if cases[i].size != cases[j].size {
			return cases[i].size < cases[j].size
		}
		return cases[i].ID < cases[j].ID
	})
	type flags struct{ loaderOK, schemaOK bool }
	ok := map[string]flags{} // "<fk>:<path>" of path documents
	var preconditions, typeLevel, validatorDisagreements, panics []string
	var blockedLoader, blockedSchema, valueBlockedExpected, pathDocs int
	var valueBlocked []string
	failingPerKind := map[string]int{}
	clauseReached := map[string]int{}
	fail := func(c *docCase, v verdict) {
		kind := v.clause + " @ " + c.kindAt
		failingPerKind[kind]++
		r.Fail(vx.Failure{Kind: kind, Witness: c.ID, Size: c.size, What: v.what, Detail: map[string]any{"case": c, "clause": v.clause}})
	}
	for pass := 0; pass < 2; pass++ { // pass 0: path documents (they are the bases); pass 1: the rest
		for _, c := range cases {
			if (c.Family == "path") != (pass == 0) {
				continue
			}
			if c.lclass == "panic" {
				panics = append(panics, c.ID+": "+c.lmsg)
			}
			if c.pyKnown && c.pyS != c.S {
				validatorDisagreements = append(validatorDisagreements, c.ID)
				if c.Family == "path" {
					ok[c.FK+":"+c.Path] = flags{c.L, false}
				}
				continue
			}
			switch c.Family {
			case "path":
				pathDocs++
				par := flags{true, true}
				if c.p != nil && len(c.p.steps) > 0 {
					par = ok[c.FK+":"+c.p.parent()]
				}
				me := flags{par.loaderOK && c.L, par.schemaOK && c.S}
				if _, dup := ok[c.FK+":"+c.Path]; dup && c.Key != "" { // kind-mismatch variants: both must pass
					prev := ok[c.FK+":"+c.Path]
					me = flags{me.loaderOK && prev.loaderOK, me.schemaOK && prev.schemaOK}
				}
				ok[c.FK+":"+c.Path] = me
				if !par.loaderOK {
					blockedLoader++
				}
				if !par.schemaOK {
					blockedSchema++
				}
				if !par.loaderOK || !par.schemaOK {
					continue
				}
				clauseReached["agreement(path)"]++
				vs, tl, pre := judgePath(c)
				for _, v := range vs {
					fail(c, v)
				}
				if tl != "" {
					typeLevel = append(typeLevel, tl)
				}
				if strings.HasPrefix(pre, valueLevelMark) {
					pre = strings.TrimPrefix(pre, valueLevelMark)
					if expectedUnloadable.MatchString(c.Path) {
						valueBlockedExpected++
					} else {
						valueBlocked = append(valueBlocked, pre)
					}
				} else if pre != "" {
					preconditions = append(preconditions, pre)
				}
			case "inject", "alias", "free", "merge":
				b := ok[c.FK+":"+c.Path]
				if !b.loaderOK {
					blockedLoader++
				}
				if !b.schemaOK {
					blockedSchema++
				}
				if b.loaderOK && c.LoaderClosed && c.Family != "free" {
					clauseReached["unknown-key("+c.Family+")"]++
				}
				if b.loaderOK && b.schemaOK {
					clauseReached["agreement("+c.Family+")"]++
				}
				for _, v := range judgeInjected(c, b.loaderOK, b.schemaOK) {
					fail(c, v)
				}
			case "noaction", "nullaction", "nullentry":
				blocked := false
				for _, need := range c.needOK {
					if !ok[c.FK+":"+need].loaderOK {
						blocked = true
					}
				}
				if blocked {
					blockedLoader++
					continue
				}
				clauseReached[c.Family]++
				for _, v := range judgeNoAction(c) {
					fail(c, v)
				}
			}
		}
	}
	// judgement of the composition routes (same order as the cases)
	viaStats := map[string]map[string]int{}
	sort.SliceStable(viaCases, func(i, j int) bool {
		a, b := viaCases[i], viaCases[j]
		if a.c.size != b.c.size {
			return a.c.size < b.c.size
		}
		if a.c.ID != b.c.ID {
			return a.c.ID < b.c.ID
		}
		return a.route.Name < b.route.Name
	})
	for _, v := range viaCases {
		c := v.c
		st := viaStats[v.route.Name]
		if st == nil {
			st = map[string]int{}
			viaStats[v.route.Name] = st
		}
		st["executions"]++
		if v.lclass == "panic" {
			panics = append(panics, c.ID+" via "+v.route.Name+": "+v.lmsg)
			continue
		}
		clause := ""
		switch c.Family {
		case "path":
			if !ok[c.FK+":"+c.Path].loaderOK {
				continue
			}
			if v.L {
				st["valid_documents_loaded"]++
			} else {
				st["valid_documents_refused("+v.lclass+")"]++
			}
			continue
		case "inject", "merge":
			if !ok[c.FK+":"+c.Path].loaderOK || !c.LoaderClosed {
				continue
			}
			clause = "unknown-key-accepted"
		default:
			blocked := false
			for _, need := range c.needOK {
				if !ok[c.FK+":"+need].loaderOK {
					blocked = true
				}
			}
			if blocked {
				continue
			}
			clause = map[string]string{"noaction": "no-action-entry-accepted", "nullaction": "null-action-entry-accepted", "nullentry": "null-entry-silently-dropped"}[c.Family]
		}
		st["judged"]++
		clauseReached[clause+" via route"]++
		if !v.L {
			st["rejected("+v.lclass+")"]++
			continue
		}
		what := fmt.Sprintf("%s file reached through %s: undeclared key %q at %s is silently accepted when the pipeline is loaded (the same file is rejected=%v by the %s loader alone)", c.FK, v.route.Name, c.Key, c.Path, !c.L, c.FK)
		if c.Family != "inject" && c.Family != "merge" {
			what = fmt.Sprintf("%s file reached through %s: entry %s names no member of the union %s (%s) but the pipeline loads (the same file is rejected=%v by the %s loader alone)", c.FK, v.route.Name, c.Key, c.Path, c.ID[strings.Index(c.ID, " = ")+3:], !c.L, c.FK)
		}
		kind := clause + " @ " + c.FK + " via " + v.route.Name
		failingPerKind[kind]++
		r.Fail(vx.Failure{Kind: kind, Witness: c.ID + " via " + v.route.Name, Size: c.size, What: what,
			Detail: map[string]any{"case": c, "clause": clause, "via": v.route.Name}})
	}

	if len(routesUnavailable) > 0 && r.NumFailures() == 0 {
		fatalf("composition route(s) cannot be exercised although no key-level failure explains it (fixtures out of date?):\n%s", strings.Join(routesUnavailable, "\n"))
	}

	if len(preconditions) > 0 {
		sort.Strings(preconditions)
		n := len(preconditions)
		if n > 8 {
			preconditions = preconditions[:8]
		}
		fatalf("%d template precondition failure(s) (documents that must load do not; value hints of the harness need updating):\n%s", n, strings.Join(preconditions, "\n"))
	}
	// Documents the schema accepts and the loader refuses for a value-level
	// reason are outside the key-level claim: they (and the paths below them)
	// are counted as blocked. More than a handful means the templates are out
	// of date and the run would be vacuous: harness error, never a violation.
	sort.Strings(valueBlocked)
	if limit := 5 + pathDocs/50; len(valueBlocked) > limit {
		n := len(valueBlocked)
		fatalf("%d path documents (limit %d) are rejected by the loader for value-level reasons; the templates of the harness need updating:\n%s", n, limit, strings.Join(valueBlocked[:8], "\n"))
	}

	// evidence
	distinct := map[string]bool{}
	perKind := map[string]map[string]int{}
	lhist, shist := map[string]int{}, map[string]int{}
	samples := &vx.Samples{N: 8}
	for _, c := range cases {
		distinct[c.FK+"\x00"+c.YAML] = true
		if perKind[c.FK] == nil {
			perKind[c.FK] = map[string]int{}
		}
		perKind[c.FK][c.Family]++
		lhist[c.Family+"/"+c.lclass]++
		shist[c.Family+"/"+c.sclass]++
	}
	for _, want := range []string{"path", "inject", "merge", "alias", "free", "noaction", "nullaction", "nullentry"} {
		for _, c := range cases {
			if c.Family == want && c.size >= 24 || c.Family == want && strings.HasPrefix(want, "n") {
				samples.Add(map[string]any{"id": c.ID, "yaml": c.YAML, "loader": c.lclass, "schema": c.sclass})
				break
			}
		}
	}
	grammar := map[string]any{}
	var unhandled, custom []string
	totalS, totalG, totalBoth, onlyS, onlyG, injPoints, closedBoth, closednessDiffers, cutNodes, mismatches := 0, 0, 0, 0, 0, 0, 0, 0, 0, 0
	for _, fk := range fks {
		s, g, both, os_, og, inj, cb, cd, cut, mm := 0, 0, 0, 0, 0, 0, 0, 0, 0, 0
		for _, p := range fk.paths {
			e := p.end()
			if e.s != nil {
				s++
			}
			if e.g != nil {
				g++
			}
			switch {
			case e.s != nil && e.g != nil:
				both++
			case e.s != nil:
				os_++
			default:
				og++
			}
			if p.kindMismatch {
				mm++
			}
			if p.cut {
				cut++
			}
			if !p.kindMismatch && e.kind() == kObj {
				inj++
				lc := e.g != nil && e.g.Closed
				sc := e.s != nil && e.s.Closed
				if lc && sc {
					cb++
				} else if e.s != nil && e.g != nil {
					cd++
				}
			}
		}
		grammar[fk.Name] = map[string]any{
			"schema_definitions": len(fk.sg.memo), "go_structs": len(fk.gg.memo),
			"key_paths_schema_side": s, "key_paths_reflection_side": g, "key_paths_both": both,
			"key_paths_schema_only": os_, "key_paths_loader_only": og,
			"injection_points": inj, "injection_points_closed_on_both_sides": cb, "nodes_closed_on_one_side_only": cd,
			"recursion_cut_nodes": cut, "kind_mismatch_nodes": mm, "documents": perKind[fk.Name],
		}
		totalS, totalG, totalBoth, onlyS, onlyG = totalS+s, totalG+g, totalBoth+both, onlyS+os_, onlyG+og
		injPoints, closedBoth, closednessDiffers, cutNodes, mismatches = injPoints+inj, closedBoth+cb, closednessDiffers+cd, cutNodes+cut, mismatches+mm
		for k := range fk.sg.unhandled {
			unhandled = append(unhandled, fk.Name+":"+k)
		}
		for k := range fk.gg.custom {
			custom = append(custom, fk.Name+":"+k)
		}
	}
	sort.Strings(unhandled)
	sort.Strings(custom)
	sort.Strings(typeLevel)
	sort.Strings(validatorDisagreements)
	sort.Strings(panics)
	cap10 := func(l []string) []string {
		if len(l) > 10 {
			return append(l[:10:10], fmt.Sprintf("... %d more", len(l)-10))
		}
		return l
	}
	n := int(loads.Load())
	os.RemoveAll(scratch)
	r.Finish(map[string]any{
		"states":                              len(distinct),
		"transitions":                         n,
		"traces_validated_against_impl":       n,
		"samples":                             samples.L,
		"exhaustive":                          true,
		"recursion_bound_per_definition":      bound,
		"documents_total":                     len(cases),
		"per_file_kind":                       grammar,
		"key_paths_schema_side":               totalS,
		"key_paths_reflection_side":           totalG,
		"key_paths_declared_by_both":          totalBoth,
		"key_paths_schema_only":               onlyS,
		"key_paths_loader_only":               onlyG,
		"injection_points":                    injPoints,
		"injection_points_closed_both_sides":  closedBoth,
		"nodes_closed_on_one_side_only":       closednessDiffers,
		"recursion_cut_nodes":                 cutNodes,
		"kind_mismatch_nodes":                 mismatches,
		"loader_outcomes":                     lhist,
		"schema_outcomes":                     shist,
		"oracle_clause_reached":               clauseReached,
		"composition_routes":                  viaStats,
		"composition_routes_unavailable":      routesUnavailable,
		"blocked_by_failing_prefix_loader":    blockedLoader,
		"blocked_by_failing_prefix_schema":    blockedSchema,
		"value_level_blocked_expected":        valueBlockedExpected,
		"value_level_blocked_unexpected":      cap10(valueBlocked),
		"failing_cases_per_kind":              failingPerKind,
		"type_level_disagreements_not_judged": cap10(typeLevel),
		"loader_panics_not_judged_here":       cap10(panics),
		"python_jsonschema_crosscheck":        pyStatus,
		"validator_disagreements_excluded":    cap10(validatorDisagreements),
		"schema_keywords_not_modelled":        unhandled,
		"go_types_with_custom_unmarshalling":  custom,
		"explanation":                         "every abstract key path of the joint (schema x reflected structs) grammar, every mapping node with one undeclared key / Go-name alias, every free-form position, every no-action rule entry; each document is a YAML file pushed through the real loader and the published schema",
	}, []string{
		"recursive definitions (ast.Type, option-call parameters, assignment values) are unfolded up to the stated bound per definition on a path; nodes at the bound are still instantiated and injected into but not expanded",
		"only key-level acceptance is compared; value-level loader checks (reference formats, missing selector, missing package) are satisfied by the templates and never counted as key rejections",
		"PipelineFromFile only decodes: files and directories named by a pipeline are not opened at load time, so no existence checks are involved",
		"rule entries are the items of passes/builders/options and of the pipeline's inputs/output.languages; loading a pipeline includes resolving these two unions (OutputLanguages, Input.InterpolateParameters: no I/O)",
		"pass/veneer documents are also loaded through every pipeline route (transformations.schemas, transformations.builders, inputs[].<every kind>.transformations) with real fixture inputs (package pkg, objects A{f}, B); through a route only 'must be rejected' clauses are judged, valid documents are counted",
		"no-member entries are enumerated alone, doubled, and before/after/between a well-formed sibling of every member kind; undeclared keys also in the 2nd item of every list on the path and in either file of a batch of two",
		"one witness per failure kind (kind = clause @ file kind:route:definition); total failing cases per kind are in failing_cases_per_kind",
	})
	return 0
}

func replay(r *vx.Run, fks []*fileKind) int {
	kind, witness, detail := r.ReplayFile()
	var d struct {
		Case   docCase `json:"case"`
		Clause string  `json:"clause"`
		Via    string  `json:"via"`
	}
	if err := json.Unmarshal(detail, &d); err != nil {
		fatalf("replay detail: %v", err)
	}
	c := &d.Case
	for _, fk := range fks {
		if fk.Name == c.FK {
			fk.init(r.Repo, 1)
			c.fk = fk
		}
	}
	if c.fk == nil {
		fatalf("replay: unknown file kind %q", c.FK)
	}
	fmt.Printf("replaying %s\n  kind: %s\n--- document (%s)\n%s", witness, kind, c.FK, c.YAML)
	if d.Via != "" {
		fks[0].init(r.Repo, 1)
		for _, route := range viaRoutes(fks[0], makeFixtures()) {
			if route.Name != d.Via {
				continue
			}
			accepted, class, msg, py := runVia(route, c.YAML)
			fmt.Printf("--- pipeline (%s)\n%s--- loading the pipeline (PipelineFromFile, OutputLanguages, LoadSchemas, ContextForLanguage): accepted=%v class=%s %s\n", route.Name, py, accepted, class, msg)
			if accepted {
				fmt.Printf("  %s: the document is accepted through this route\nVIOLATION property=C20 replay=%s\n", d.Clause, r.Replay)
				return 1
			}
			fmt.Println("replay: the recorded clause does not fail on this tree")
			return 0
		}
		fatalf("replay: route %q does not exist on this tree", d.Via)
	}
	execute(c)
	fmt.Printf("--- loader: accepted=%v class=%s %s\n--- schema: accepted=%v class=%s %s\n", c.L, c.lclass, c.lmsg, c.S, c.sclass, c.smsg)
	var vs []verdict
	switch c.Family {
	case "path":
		vs, _, _ = judgePath(c)
	case "noaction", "nullaction", "nullentry":
		vs = judgeNoAction(c)
	default:
		b := &docCase{Family: "path", FK: c.FK, YAML: c.Base, fk: c.fk}
		execute(b)
		fmt.Printf("--- base document: loader accepted=%v (%s) schema accepted=%v (%s)\n", b.L, b.lmsg, b.S, b.smsg)
		vs = judgeInjected(c, b.L, b.S)
	}
	for _, v := range vs {
		fmt.Printf("  %s: %s\n", v.clause, v.what)
		if v.clause == d.Clause {
			fmt.Printf("VIOLATION property=C20 replay=%s\n", r.Replay)
			return 1
		}
	}
	fmt.Println("replay: the recorded clause does not fail on this tree")
	return 0
}
