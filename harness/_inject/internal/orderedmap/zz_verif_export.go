//go:build verif

package orderedmap

// VerifState exposes the complete private state of the map to the
// verification harness (overlay-injected; never part of a normal build).
func VerifState[K comparable, V any](m *Map[K, V]) ([]K, map[K]V) {
	return m.order, m.records
}
