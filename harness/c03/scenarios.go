//go:build verif

package main

import (
	"os"
	"path/filepath"
	"strings"

	"github.com/grafana/cog/verifx/vx"
)

type scenario struct {
	Name    string
	Reduced bool // small enough for deviation bound 2 in the thorough tier
	Files   map[string]string
}

const schemaA = `{"$schema":"http://json-schema.org/draft-07/schema#","$ref":"#/definitions/A","definitions":{
 "A":{"type":"object","required":["pet"],"properties":{"pet":{"oneOf":[{"$ref":"#/definitions/Cat"},{"$ref":"#/definitions/Dog"}]},"k1":{"type":"string","const":"x"},"k2":{"type":"string","const":"y"},"n1":{"type":"integer","const":1},"tags":{"type":"object","additionalProperties":{"type":"string"}},"level":{"type":"string","enum":["low","high"],"default":"low"}}},
 "Cat":{"type":"object","required":["type","kind"],"properties":{"type":{"type":"string","const":"cat"},"kind":{"type":"string","const":"c"},"lives":{"type":"integer","minimum":0,"maximum":9}}},
 "Dog":{"type":"object","required":["type","kind"],"properties":{"type":{"type":"string","const":"dog"},"kind":{"type":"string","const":"d"},"name":{"type":"string","minLength":1}}},
 "C1":{"type":"string","const":"one"},"C2":{"type":"string","const":"two"}
}}`

const schemaB = `{"$schema":"http://json-schema.org/draft-07/schema#","$ref":"#/definitions/B","definitions":{
 "B":{"type":"object","properties":{"x":{"type":"string"},"ei":{"$ref":"#/definitions/Either"},"items":{"type":"array","items":{"oneOf":[{"type":"string"},{"type":"boolean"}]}},"either":{"oneOf":[{"type":"string"},{"type":"integer"}]},"others":{"type":"array","items":{"oneOf":[{"type":"string"},{"type":"integer"}]}},"nested":{"type":"object","properties":{"deep":{"type":"string","enum":["u","v"]}}}}},
 "D1":{"type":"integer","const":1},"D2":{"type":"integer","const":2},
 "Either":{"oneOf":[{"type":"string"},{"type":"integer"}]}
}}`

const openapiDoc = `{"openapi":"3.0.0","info":{"title":"t","version":"1"},"paths":{},"components":{"schemas":{
 "Root":{"type":"object","required":["pet"],"properties":{"pet":{"oneOf":[{"$ref":"#/components/schemas/Cat"},{"$ref":"#/components/schemas/Dog"}],"discriminator":{"propertyName":"type"}},"n":{"type":"integer","format":"int32","minimum":1},"labels":{"type":"object","additionalProperties":{"type":"string"}}}},
 "Cat":{"type":"object","required":["type"],"properties":{"type":{"type":"string","enum":["cat"]},"lives":{"type":"integer"}}},
 "Dog":{"type":"object","required":["type"],"properties":{"type":{"type":"string","enum":["dog"]},"name":{"type":"string"}}},
 "Level":{"type":"string","enum":["low","high"]}
}}}`

const passes = `passes:
  - fields_set_default:
      defaults:
        alpha.Cat.lives: 3
        alpha.cat.LIVES: 4
        alpha.Dog.name: rex
  - hint_object:
      object: alpha.Dog
      hints:
        h_one: 1
        h_two: two
  - rename_object:
      from: beta.B
      to: Bee
  - fields_set_not_required:
      fields: [alpha.A.pet]
  - hint_object:
      object: beta.Either
      hints:
        e_one: 1
        e_two: two
        e_three: [3]
`

const veneersBeta = `language: all
package: beta
builders:
  - add_factory:
      by_name: Bee
      factory:
        name: Buzz
        options:
          - name: x
            parameters:
              - constant: {type: {kind: scalar, scalar: {scalar_kind: string}}, value: buzz}
`

const veneers = `language: all
package: alpha
builders:
  - duplicate:
      by_name: Dog
      as: Puppy
  - properties:
      by_name: Cat
      set:
        - name: extra
          type: {kind: scalar, scalar: {scalar_kind: string}}
  - add_factory:
      by_name: Dog
      factory:
        name: Rex
        options:
          - name: name
            parameters:
              - constant: {type: {kind: scalar, scalar: {scalar_kind: string}}, value: rex}
  - add_factory:
      by_name: Cat
      factory:
        name: Tom
        options:
          - name: lives
            parameters:
              - constant: {type: {kind: scalar, scalar: {scalar_kind: int64}}, value: 9}
  - add_factory:
      by_name: A
      factory:
        name: Default
        options:
          - name: k2
            parameters:
              - constant: {type: {kind: scalar, scalar: {scalar_kind: string}}, value: y}
options:
  - rename:
      by_name: Dog.name
      as: called
  - unfold_boolean:
      by_name: A.flag
      true_as: on
      false_as: off
`

func allLanguages(pkgRoot string) string {
	return `    - go: {package_root: ` + pkgRoot + `, generate_json_marshaller: true, generate_strict_unmarshaller: true, generate_equal: true, generate_validate: true}
    - python: {generate_json_marshaller: true}
    - java: {package_path: com.example}
    - typescript: {}
    - php: {namespace_root: Ex}
    - jsonschema: {}
    - openapi: {}
`
}

func writeScenarios(dir, repo string) []scenario {
	scns := []scenario{
		{Name: "rich", Files: map[string]string{
			"in/a.json": schemaA, "in/b.json": schemaB,
			"pipeline.yaml": `parameters:
  p1: '%p2%'
  p2: 'zed'
inputs:
  - jsonschema: {path: '%__config_dir%/in/a.json', package: alpha}
  - jsonschema: {path: '%__config_dir%/in/b.json', package: beta}
output:
  directory: './out/%l/%p1%'
  types: true
  builders: true
  converters: true
  api_reference: true
  languages:
` + allLanguages("gen"),
		}},
		{Name: "openapi", Files: map[string]string{
			"in/api.json": openapiDoc,
			"pipeline.yaml": `inputs:
  - openapi: {path: '%__config_dir%/in/api.json', package: api}
output:
  directory: './out/%l'
  types: true
  builders: true
  converters: true
  languages:
    - go: {package_root: gen, generate_json_marshaller: true}
    - python: {generate_json_marshaller: true}
    - typescript: {}
    - java: {package_path: com.example}
`,
		}},
		{Name: "cue", Files: map[string]string{
			"pipeline.yaml": `inputs:
  - cue: {entrypoint: '` + repo + `/testdata/schemas/defaults'}
  - cue: {entrypoint: '` + repo + `/testdata/schemas/validation'}
output:
  directory: './out/%l'
  types: true
  builders: true
  languages:
    - go: {package_root: gen, generate_json_marshaller: true, generate_validate: true}
    - python: {}
    - php: {namespace_root: Ex}
    - typescript: {}
    - java: {package_path: com.example}
`,
		}},
		{Name: "transforms", Files: map[string]string{
			"in/a.json": schemaA, "in/b.json": schemaB,
			"passes/common.yaml":  passes,
			"veneers/alpha.yaml":  veneers,
			"veneers/beta.yaml":   veneersBeta,
			"pipeline.yaml": `parameters:
  out: './out'
  root: 'gen'
  nested: '%root%/x'
inputs:
  - jsonschema: {path: '%__config_dir%/in/a.json', package: alpha}
  - jsonschema: {path: '%__config_dir%/in/b.json', package: beta}
transformations:
  schemas: ['%__config_dir%/passes/common.yaml']
  builders: ['%__config_dir%/veneers']
output:
  directory: '%out%/%l'
  types: true
  builders: true
  converters: true
  api_reference: true
  languages:
    - go: {package_root: '%nested%', generate_json_marshaller: true, generate_equal: true}
    - python: {generate_json_marshaller: true}
    - java: {package_path: com.example}
    - php: {namespace_root: Ex}
`,
		}},
		{Name: "samelast", Reduced: true, Files: map[string]string{
			"in/s.json": `{"$schema":"http://json-schema.org/draft-07/schema#","$ref":"#/definitions/Root","definitions":{
 "Root":{"type":"object","properties":{"a":{"$ref":"#/definitions/X"},"b":{"$ref":"#/definitions/sub/X"},"c":{"$ref":"#/definitions/other/X"}}},
 "X":{"type":"object","properties":{"p":{"type":"string"}}},
 "sub":{"X":{"type":"object","properties":{"q":{"type":"integer"}}}},
 "other":{"X":{"type":"object","properties":{"r":{"type":"boolean"}}}}
}}`,
			"pipeline.yaml": `inputs:
  - jsonschema: {path: '%__config_dir%/in/s.json', package: same}
output:
  directory: './out/%l'
  types: true
  languages:
    - go: {package_root: gen}
    - typescript: {}
`,
		}},
		{Name: "javaalias", Files: map[string]string{
			"in/j.json": `{"$schema":"http://json-schema.org/draft-07/schema#","$ref":"#/definitions/Root","definitions":{
 "Root":{"type":"object","properties":{"a":{"$ref":"#/definitions/AliasOne"},"b":{"$ref":"#/definitions/AliasTwo"},"s":{"$ref":"#/definitions/S1"},"t":{"$ref":"#/definitions/S2"},"c1":{"$ref":"#/definitions/C1"},"c2":{"$ref":"#/definitions/C2"},"c3":{"$ref":"#/definitions/C3"},"conf":{"type":"object","default":{"x":"1","y":"2","z":"3"},"additionalProperties":{"type":"string"}},"sd":{"$ref":"#/definitions/S3","default":{"u":"1","v":"2","w":"3"}},"sd2":{"type":"object","properties":{"u":{"type":"string"},"v":{"type":"string"}},"default":{"u":"1","v":"2"}},"list":{"type":"array","items":{"oneOf":[{"type":"string"},{"type":"integer"}]}},"list2":{"type":"array","items":{"oneOf":[{"type":"string"},{"type":"boolean"}]}}}},
 "AliasOne":{"$ref":"#/definitions/S1"},"AliasTwo":{"$ref":"#/definitions/S2"},
 "S1":{"type":"object","properties":{"p":{"type":"string"}}},
 "S2":{"type":"object","properties":{"q":{"type":"integer"}}},
 "S3":{"type":"object","properties":{"u":{"type":"string"},"v":{"type":"string"},"w":{"type":"string"}}},
 "C1":{"type":"string","const":"one"},"C2":{"type":"integer","const":2},"C3":{"type":"boolean","const":true}
}}`,
			"passes/hints.yaml": `passes:
  - hint_object:
      object: jay.S1
      hints: {s_one: 1, s_two: two, s_three: [3]}
  - hint_object:
      object: jay.S2
      hints: {t_one: 1, t_two: two}
`,
			"tmpl/extra/NOTES.md": `{{ range $k, $v := .Extra }}{{ $k }}={{ $v }};{{ end }} {{ range .Packages }}{{ . }},{{ end }}`,
			"repo/common/README.md": `{{ range $k, $v := .Extra }}{{ $k }}={{ $v }};{{ end }}`,
			"repo/go/GO.md":         `go {{ .Extra.first }}`,
			"repo/java/JAVA.md":     `java {{ .Extra.second }}`,
			"repo/php/PHP.md":       `php`,
			"pipeline.yaml": `parameters:
  a: 'one'
  b: '%a%-two'
  c: '%b%-three'
inputs:
  - jsonschema: {path: '%__config_dir%/in/j.json', package: jay}
transformations:
  schemas: ['%__config_dir%/passes/hints.yaml']
output:
  directory: './out/%l'
  types: true
  builders: true
  converters: true
  api_reference: true
  repository_templates: '%__config_dir%/repo'
  templates_data:
    first: '%a%'
    second: '%b%'
    third: '%c%'
  languages:
    - java: {package_path: com.example}
    - php: {namespace_root: Ex}
    - typescript: {packages_import_map: {alpha: '%a%/alpha', beta: '%b%/beta'}}
    - go: {package_root: gen, generate_json_marshaller: true, extra_files_templates: ['%__config_dir%/tmpl/extra']}
    - python: {generate_json_marshaller: true}
`,
		}},
		// map-valued defaults (the JSON Schema front-end drops them, CUE keeps them),
		// `any` defaults holding objects, lists of maps: every language prints them
		{Name: "cuemaps", Reduced: true, Files: map[string]string{
			"in/cuemaps/schema.cue": `package cuemaps

Root: {
	conf: {[string]: string} | *{x: "1", y: "2", z: "3"}
	limits?: {[string]: int64} | *{low: 1, high: 2}
	nested: {[string]: {[string]: string}} | *{a: {k: "v", l: "w"}, b: {m: "x"}}
	rows: [...{[string]: int64}] | *[{a: 1, b: 2}, {c: 3, d: 4}]
	inner: Inner | *{first: "f", second: "s", third: {p: "1", q: "2"}}
	free: _ | *{one: 1, two: "2"}
}

Inner: {
	first: string
	second: string
	third: {[string]: string}
}
`,
			"pipeline.yaml": `inputs:
  - cue: {entrypoint: '%__config_dir%/in/cuemaps'}
output:
  directory: './out/%l'
  types: true
  builders: true
  converters: true
  languages:
    - typescript: {}
    - go: {package_root: gen, generate_json_marshaller: true}
    - python: {generate_json_marshaller: true}
    - java: {package_path: com.example}
    - php: {namespace_root: Ex}
    - jsonschema: {}
    - openapi: {}
`,
		}},
		// discriminated unions with renamed branches (explicit OpenAPI mappings make the Go
		// output ill-formed on the unchanged tree: known finding of C05), intersections with hinted
		// objects (Java removes them), lists of unions in builders/converters
		{Name: "mappings", Files: map[string]string{
			"in/api.json": `{"openapi":"3.0.0","info":{"title":"t","version":"1"},"paths":{},"components":{"schemas":{
 "Root":{"type":"object","required":["pet"],"properties":{"pet":{"oneOf":[{"$ref":"#/components/schemas/Cat"},{"$ref":"#/components/schemas/Dog"},{"$ref":"#/components/schemas/Eel"}],"discriminator":{"propertyName":"type"}},"pets":{"type":"array","items":{"oneOf":[{"$ref":"#/components/schemas/Cat"},{"$ref":"#/components/schemas/Dog"}],"discriminator":{"propertyName":"type"}}},"others":{"type":"array","items":{"oneOf":[{"$ref":"#/components/schemas/Dog"},{"$ref":"#/components/schemas/Eel"}],"discriminator":{"propertyName":"type"}}},"mixed":{"type":"array","items":{"oneOf":[{"type":"string"},{"type":"integer"},{"type":"boolean"}]}}}},
 "Cat":{"type":"object","required":["type"],"properties":{"type":{"type":"string","enum":["cat"]},"lives":{"type":"integer"}}},
 "Dog":{"type":"object","required":["type"],"properties":{"type":{"type":"string","enum":["dog"]},"name":{"type":"string"}}},
 "Eel":{"type":"object","required":["type"],"properties":{"type":{"type":"string","enum":["eel"]},"volts":{"type":"integer"}}},
 "Base":{"type":"object","properties":{"id":{"type":"string"}}},
 "Derived":{"allOf":[{"$ref":"#/components/schemas/Base"},{"type":"object","properties":{"more":{"type":"string"}}}]}
}}}`,
			"passes/common.yaml": `passes:
  - hint_object:
      object: api.Base
      hints:
        b_one: 1
        b_two: two
        b_three: [3]
  - hint_object:
      object: api.Derived
      hints:
        d_one: 1
        d_two: two
  - rename_object:
      from: api.Cat
      to: Kitty
  - rename_object:
      from: api.Eel
      to: Moray
`,
			// two lists of unions appended branch by branch: the converter keeps
			// such options per assignment path
			"in/zoo.json": `{"$schema":"http://json-schema.org/draft-07/schema#","$ref":"#/definitions/Zoo","definitions":{
 "Zoo":{"type":"object","properties":{"pets":{"type":"array","items":{"oneOf":[{"$ref":"#/definitions/Cat"},{"$ref":"#/definitions/Dog"}]}},"others":{"type":"array","items":{"oneOf":[{"$ref":"#/definitions/Dog"},{"$ref":"#/definitions/Eel"}]}},"more":{"type":"array","items":{"oneOf":[{"$ref":"#/definitions/Cat"},{"$ref":"#/definitions/Eel"}]}}}},
 "Cat":{"type":"object","required":["type"],"properties":{"type":{"type":"string","const":"cat"},"lives":{"type":"integer"}}},
 "Dog":{"type":"object","required":["type"],"properties":{"type":{"type":"string","const":"dog"},"name":{"type":"string"}}},
 "Eel":{"type":"object","required":["type"],"properties":{"type":{"type":"string","const":"eel"},"volts":{"type":"integer"}}}
}}`,
			"veneers/zoo.yaml": `language: all
package: zoo
options:
  - array_to_append: {by_name: Zoo.pets}
  - array_to_append: {by_name: Zoo.others}
  - array_to_append: {by_name: Zoo.more}
  - disjunction_as_options: {by_name: Zoo.pets}
  - disjunction_as_options: {by_name: Zoo.others}
  - disjunction_as_options: {by_name: Zoo.more}
`,
			"pipeline.yaml": `inputs:
  - openapi: {path: '%__config_dir%/in/api.json', package: api}
  - jsonschema: {path: '%__config_dir%/in/zoo.json', package: zoo}
transformations:
  schemas: ['%__config_dir%/passes/common.yaml']
  builders: ['%__config_dir%/veneers']
output:
  directory: './out/%l'
  types: true
  builders: true
  converters: true
  api_reference: true
  languages:
    - go: {package_root: gen, generate_json_marshaller: true, generate_strict_unmarshaller: true, generate_equal: true}
    - java: {package_path: com.example, generate_json_marshaller: true}
    - python: {generate_json_marshaller: true}
    - typescript: {}
    - jsonschema: {}
    - openapi: {}
`,
		}},
		// panel plugins composed into a dashboard panel builder: one composed builder per
		// plugin identifier
		{Name: "compose", Files: map[string]string{
			"schemas/dashboard/dashboard.cue": `package dashboard

Panel: {
	type: string
	title?: string
	options?: _
	fieldConfig?: _
}
`,
			"schemas/timeseries/timeseries.cue": `package timeseries

Options: {
	showLegend: bool
	lineWidth?: int32
}
FieldConfig: {
	unit?: string
}
`,
			"schemas/logs/logs.cue": `package logs

Options: {
	wrapLines?: bool
	dedup?: "none" | "exact"
}
`,
			"schemas/table/table.cue": `package table

Options: {
	showHeader?: bool
}
FieldConfig: {
	align?: string
}
`,
			"veneers/compose.yaml": `language: all
package: composed
builders:
  - compose:
      by_variant: panelcfg
      source_builder_name: dashboard.Panel
      plugin_discriminator_field: type
      composition_map: {Options: options, FieldConfig: fieldConfig}
      composed_builder_name: Panel
`,
			"pipeline.yaml": `inputs:
  - cue: {entrypoint: '%__config_dir%/schemas/dashboard'}
  - cue:
      entrypoint: '%__config_dir%/schemas/timeseries'
      metadata: {kind: composable, variant: panelcfg, identifier: timeseries}
  - cue:
      entrypoint: '%__config_dir%/schemas/logs'
      metadata: {kind: composable, variant: panelcfg, identifier: logs}
  - cue:
      entrypoint: '%__config_dir%/schemas/table'
      metadata: {kind: composable, variant: panelcfg, identifier: table}
transformations:
  builders: ['%__config_dir%/veneers']
output:
  directory: './out/%l'
  types: true
  builders: true
  converters: true
  api_reference: true
  languages:
    - go: {package_root: gen, generate_json_marshaller: true}
    - python: {generate_json_marshaller: true}
    - typescript: {}
    - java: {package_path: com.example}
    - php: {namespace_root: Ex}
`,
		}},
		// CUE libraries whose import paths nest (`…/common` and `…/common/units`)
		{Name: "cuelibs", Reduced: true, Files: map[string]string{
			"libs/common/common.cue": `package common

Base: {
	id: string
}
`,
			"libs/units/units.cue": `package units

Unit: "s" | "ms"
Span: {
	amount: int64
	unit: Unit
}
`,
			"in/app/app.cue": `package app

import (
	"example.com/lib/common"
	"example.com/lib/common/units"
)

Root: {
	base: common.Base
	span: units.Span
	unit?: units.Unit
}
`,
			"pipeline.yaml": `inputs:
  - cue: {entrypoint: '%__config_dir%/libs/common'}
  - cue: {entrypoint: '%__config_dir%/libs/units'}
  - cue:
      entrypoint: '%__config_dir%/in/app'
      cue_imports:
        - '%__config_dir%/libs/common:example.com/lib/common'
        - '%__config_dir%/libs/units:example.com/lib/common/units'
output:
  directory: './out/%l'
  types: true
  languages:
    - go: {package_root: gen}
    - typescript: {}
    - python: {}
    - jsonschema: {}
    - openapi: {}
`,
		}},
		// a builder merged into another with chained option renames (every map-typed
		// setting of the rule files holds >= 2 entries somewhere in these scenarios), and
		// unions of constants that overlap
		{Name: "merge", Reduced: true, Files: map[string]string{
			"in/demo/demo.cue": `package demo

A: "a" | "b"
B: "b" | "c"
C: A | B
D: B | A | "d"

Header: {
	name: string
	title: string
	subtitle: string
}

Dashboard: {
	uid: string
	header: Header
	c: C
	d?: D
}
`,
			"veneers/demo.yaml": `language: all
package: demo
builders:
  - merge_into:
      destination: Dashboard
      source: Header
      under_path: header
      rename_options:
        name: title
        title: description
        subtitle: name
options:
  - rename: {by_name: Dashboard.uid, as: heading}
`,
			// rules for one language only, which do not commute with the common ones
			"veneers/demo.go.yaml": `language: go
package: demo
options:
  - rename: {by_builder: Dashboard.heading, as: caption}
`,
			"veneers/demo.python.yaml": `language: python
package: demo
options:
  - rename: {by_builder: Dashboard.heading, as: legend}
`,
			"pipeline.yaml": `inputs:
  - cue: {entrypoint: '%__config_dir%/in/demo'}
transformations:
  builders: ['%__config_dir%/veneers']
output:
  directory: './out/%l'
  types: true
  builders: true
  languages:
    - go: {package_root: gen}
    - python: {}
    - typescript: {}
    - java: {package_path: com.example}
    - php: {namespace_root: Ex}
`,
		}},
		{Name: "small", Reduced: true, Files: map[string]string{
			"in/a.json": schemaA,
			"pipeline.yaml": `parameters:
  p1: '%p2%'
  p2: 'zed'
inputs:
  - jsonschema: {path: '%__config_dir%/in/a.json', package: alpha}
output:
  directory: './out/%l/%p1%'
  types: true
  builders: true
  converters: true
  languages:
    - go: {package_root: gen, generate_json_marshaller: true}
    - python: {generate_json_marshaller: true}
`,
		}},
	}
	for _, s := range scns {
		for rel, content := range s.Files {
			p := filepath.Join(dir, s.Name, rel)
			if err := os.MkdirAll(filepath.Dir(p), 0o755); err != nil {
				vx.Fatalf("%v", err)
			}
			if err := os.WriteFile(p, []byte(strings.TrimLeft(content, "\n")), 0o644); err != nil {
				vx.Fatalf("%v", err)
			}
		}
	}
	return scns
}
