//go:build verif

package main

import (
	"os"
	"path/filepath"
	"strings"

	"github.com/grafana/cog/verifx/vx"
)

type scenario struct {
	Name    string
	Reduced bool // small enough for deviation bound 2 in the thorough tier
	Files   map[string]string
}

const schemaA = `{"$schema":"http://json-schema.org/draft-07/schema#","$ref":"#/definitions/A","definitions":{
 "A":{"type":"object","required":["pet"],"properties":{"pet":{"oneOf":[{"$ref":"#/definitions/Cat"},{"$ref":"#/definitions/Dog"}]},"k1":{"type":"string","const":"x"},"k2":{"type":"string","const":"y"},"n1":{"type":"integer","const":1},"tags":{"type":"object","additionalProperties":{"type":"string"}},"level":{"type":"string","enum":["low","high"],"default":"low"}}},
 "Cat":{"type":"object","required":["type","kind"],"properties":{"type":{"type":"string","const":"cat"},"kind":{"type":"string","const":"c"},"lives":{"type":"integer","minimum":0,"maximum":9}}},
 "Dog":{"type":"object","required":["type","kind"],"properties":{"type":{"type":"string","const":"dog"},"kind":{"type":"string","const":"d"},"name":{"type":"string","minLength":1}}},
 "C1":{"type":"string","const":"one"},"C2":{"type":"string","const":"two"}
}}`

const schemaB = `{"$schema":"http://json-schema.org/draft-07/schema#","$ref":"#/definitions/B","definitions":{
 "B":{"type":"object","properties":{"x":{"type":"string"},"ei":{"$ref":"#/definitions/Either"},"items":{"type":"array","items":{"oneOf":[{"type":"string"},{"type":"boolean"}]}},"either":{"oneOf":[{"type":"string"},{"type":"integer"}]},"others":{"type":"array","items":{"oneOf":[{"type":"string"},{"type":"integer"}]}},"nested":{"type":"object","properties":{"deep":{"type":"string","enum":["u","v"]}}}}},
 "D1":{"type":"integer","const":1},"D2":{"type":"integer","const":2},
 "Either":{"oneOf":[{"type":"string"},{"type":"integer"}]}
}}`

const openapiDoc = `{"openapi":"3.0.0","info":{"title":"t","version":"1"},"paths":{},"components":{"schemas":{
 "Root":{"type":"object","required":["pet"],"properties":{"pet":{"oneOf":[{"$ref":"#/components/schemas/Cat"},{"$ref":"#/components/schemas/Dog"}],"discriminator":{"propertyName":"type"}},"n":{"type":"integer","format":"int32","minimum":1},"labels":{"type":"object","additionalProperties":{"type":"string"}}}},
 "Cat":{"type":"object","required":["type"],"properties":{"type":{"type":"string","enum":["cat"]},"lives":{"type":"integer"}}},
 "Dog":{"type":"object","required":["type"],"properties":{"type":{"type":"string","enum":["dog"]},"name":{"type":"string"}}},
 "Level":{"type":"string","enum":["low","high"]}
}}}`

const passes = `passes:
  - fields_set_default:
      defaults:
        alpha.Cat.lives: 3
        alpha.cat.LIVES: 4
        alpha.Dog.name: rex
  - hint_object:
      object: alpha.Dog
      hints:
        h_one: 1
        h_two: two
  - rename_object:
      from: beta.B
      to: Bee
  - fields_set_not_required:
      fields: [alpha.A.pet]
  - hint_object:
      object: beta.Either
      hints:
        e_one: 1
        e_two: two
        e_three: [3]
`

const veneersBeta = `language: all
package: beta
builders:
  - add_factory:
      by_name: Bee
      factory:
        name: Buzz
        options:
          - name: x
            parameters:
              - constant: {type: {kind: scalar, scalar: {scalar_kind: string}}, value: buzz}
`

const veneers = `language: all
package: alpha
builders:
  - duplicate:
      by_name: Dog
      as: Puppy
  - properties:
      by_name: Cat
      set:
        - name: extra
          type: {kind: scalar, scalar: {scalar_kind: string}}
  - add_factory:
      by_name: Dog
      factory:
        name: Rex
        options:
          - name: name
            parameters:
              - constant: {type: {kind: scalar, scalar: {scalar_kind: string}}, value: rex}
options:
  - rename:
      by_name: Dog.name
      as: called
  - unfold_boolean:
      by_name: A.flag
      true_as: on
      false_as: off
`

func allLanguages(pkgRoot string) string {
	return `    - go: {package_root: ` + pkgRoot + `, generate_json_marshaller: true, generate_strict_unmarshaller: true, generate_equal: true, generate_validate: true}
    - python: {generate_json_marshaller: true}
    - java: {package_path: com.example}
    - typescript: {}
    - php: {namespace_root: Ex}
    - jsonschema: {}
    - openapi: {}
`
}

func writeScenarios(dir, repo string) []scenario {
	scns := []scenario{
		{Name: "rich", Files: map[string]string{
			"in/a.json": schemaA, "in/b.json": schemaB,
			"pipeline.yaml": `parameters:
  p1: '%p2%'
  p2: 'zed'
inputs:
  - jsonschema: {path: '%__config_dir%/in/a.json', package: alpha}
  - jsonschema: {path: '%__config_dir%/in/b.json', package: beta}
output:
  directory: './out/%l/%p1%'
  types: true
  builders: true
  converters: true
  api_reference: true
  languages:
` + allLanguages("gen"),
		}},
		{Name: "openapi", Files: map[string]string{
			"in/api.json": openapiDoc,
			"pipeline.yaml": `inputs:
  - openapi: {path: '%__config_dir%/in/api.json', package: api}
output:
  directory: './out/%l'
  types: true
  builders: true
  converters: true
  languages:
    - go: {package_root: gen, generate_json_marshaller: true}
    - python: {generate_json_marshaller: true}
    - typescript: {}
    - java: {package_path: com.example}
`,
		}},
		{Name: "cue", Files: map[string]string{
			"pipeline.yaml": `inputs:
  - cue: {entrypoint: '` + repo + `/testdata/schemas/defaults'}
  - cue: {entrypoint: '` + repo + `/testdata/schemas/validation'}
output:
  directory: './out/%l'
  types: true
  builders: true
  languages:
    - go: {package_root: gen, generate_json_marshaller: true, generate_validate: true}
    - python: {}
    - php: {namespace_root: Ex}
    - typescript: {}
    - java: {package_path: com.example}
`,
		}},
		{Name: "transforms", Files: map[string]string{
			"in/a.json": schemaA, "in/b.json": schemaB,
			"passes/common.yaml":  passes,
			"veneers/alpha.yaml":  veneers,
			"veneers/beta.yaml":   veneersBeta,
			"pipeline.yaml": `parameters:
  out: './out'
  root: 'gen'
  nested: '%root%/x'
inputs:
  - jsonschema: {path: '%__config_dir%/in/a.json', package: alpha}
  - jsonschema: {path: '%__config_dir%/in/b.json', package: beta}
transformations:
  schemas: ['%__config_dir%/passes/common.yaml']
  builders: ['%__config_dir%/veneers']
output:
  directory: '%out%/%l'
  types: true
  builders: true
  converters: true
  api_reference: true
  languages:
    - go: {package_root: '%nested%', generate_json_marshaller: true, generate_equal: true}
    - python: {generate_json_marshaller: true}
    - java: {package_path: com.example}
    - php: {namespace_root: Ex}
`,
		}},
		{Name: "samelast", Reduced: true, Files: map[string]string{
			"in/s.json": `{"$schema":"http://json-schema.org/draft-07/schema#","$ref":"#/definitions/Root","definitions":{
 "Root":{"type":"object","properties":{"a":{"$ref":"#/definitions/X"},"b":{"$ref":"#/definitions/sub/X"},"c":{"$ref":"#/definitions/other/X"}}},
 "X":{"type":"object","properties":{"p":{"type":"string"}}},
 "sub":{"X":{"type":"object","properties":{"q":{"type":"integer"}}}},
 "other":{"X":{"type":"object","properties":{"r":{"type":"boolean"}}}}
}}`,
			"pipeline.yaml": `inputs:
  - jsonschema: {path: '%__config_dir%/in/s.json', package: same}
output:
  directory: './out/%l'
  types: true
  languages:
    - go: {package_root: gen}
    - typescript: {}
`,
		}},
		{Name: "javaalias", Files: map[string]string{
			"in/j.json": `{"$schema":"http://json-schema.org/draft-07/schema#","$ref":"#/definitions/Root","definitions":{
 "Root":{"type":"object","properties":{"a":{"$ref":"#/definitions/AliasOne"},"b":{"$ref":"#/definitions/AliasTwo"},"s":{"$ref":"#/definitions/S1"},"t":{"$ref":"#/definitions/S2"},"c1":{"$ref":"#/definitions/C1"},"c2":{"$ref":"#/definitions/C2"},"c3":{"$ref":"#/definitions/C3"},"conf":{"type":"object","default":{"x":"1","y":"2","z":"3"},"additionalProperties":{"type":"string"}},"sd":{"$ref":"#/definitions/S3","default":{"u":"1","v":"2","w":"3"}},"sd2":{"type":"object","properties":{"u":{"type":"string"},"v":{"type":"string"}},"default":{"u":"1","v":"2"}},"list":{"type":"array","items":{"oneOf":[{"type":"string"},{"type":"integer"}]}},"list2":{"type":"array","items":{"oneOf":[{"type":"string"},{"type":"boolean"}]}}}},
 "AliasOne":{"$ref":"#/definitions/S1"},"AliasTwo":{"$ref":"#/definitions/S2"},
 "S1":{"type":"object","properties":{"p":{"type":"string"}}},
 "S2":{"type":"object","properties":{"q":{"type":"integer"}}},
 "S3":{"type":"object","properties":{"u":{"type":"string"},"v":{"type":"string"},"w":{"type":"string"}}},
 "C1":{"type":"string","const":"one"},"C2":{"type":"integer","const":2},"C3":{"type":"boolean","const":true}
}}`,
			"tmpl/extra/NOTES.md": `{{ range $k, $v := .Extra }}{{ $k }}={{ $v }};{{ end }} {{ range .Packages }}{{ . }},{{ end }}`,
			"repo/common/README.md": `{{ range $k, $v := .Extra }}{{ $k }}={{ $v }};{{ end }}`,
			"repo/go/GO.md":         `go {{ .Extra.first }}`,
			"repo/java/JAVA.md":     `java {{ .Extra.second }}`,
			"repo/php/PHP.md":       `php`,
			"pipeline.yaml": `parameters:
  a: 'one'
  b: '%a%-two'
  c: '%b%-three'
inputs:
  - jsonschema: {path: '%__config_dir%/in/j.json', package: jay}
output:
  directory: './out/%l'
  types: true
  builders: true
  converters: true
  api_reference: true
  repository_templates: '%__config_dir%/repo'
  templates_data:
    first: '%a%'
    second: '%b%'
    third: '%c%'
  languages:
    - java: {package_path: com.example}
    - php: {namespace_root: Ex}
    - typescript: {packages_import_map: {alpha: '%a%/alpha', beta: '%b%/beta'}}
    - go: {package_root: gen, generate_json_marshaller: true, extra_files_templates: ['%__config_dir%/tmpl/extra']}
    - python: {generate_json_marshaller: true}
`,
		}},
		{Name: "small", Reduced: true, Files: map[string]string{
			"in/a.json": schemaA,
			"pipeline.yaml": `parameters:
  p1: '%p2%'
  p2: 'zed'
inputs:
  - jsonschema: {path: '%__config_dir%/in/a.json', package: alpha}
output:
  directory: './out/%l/%p1%'
  types: true
  builders: true
  converters: true
  languages:
    - go: {package_root: gen, generate_json_marshaller: true}
    - python: {generate_json_marshaller: true}
`,
		}},
	}
	for _, s := range scns {
		for rel, content := range s.Files {
			p := filepath.Join(dir, s.Name, rel)
			if err := os.MkdirAll(filepath.Dir(p), 0o755); err != nil {
				vx.Fatalf("%v", err)
			}
			if err := os.WriteFile(p, []byte(strings.TrimLeft(content, "\n")), 0o644); err != nil {
				vx.Fatalf("%v", err)
			}
		}
	}
	return scns
}
