//go:build verif

// C03: generation is deterministic under every map iteration order.
// Engine E2 (DESIGN §2.3): stateless deviation-bounded DFS over the iteration
// order choices of every instrumented `range <map>`, on the real pipeline.
package main

import (
	"bufio"
	"context"
	"crypto/sha256"
	"encoding/json"
	"flag"
	"fmt"
	"os"
	"os/exec"
	"path/filepath"
	"runtime"
	"sort"
	"strings"
	"sync"

	"github.com/grafana/cog/internal/codegen"
	"github.com/grafana/cog/internal/languages"
	verifsched "github.com/grafana/cog/verifx/sched"
	"github.com/grafana/cog/verifx/vx"
)

type job struct {
	ID     int            `json:"id"`
	Scn    string         `json:"scn"`
	Mode   string         `json:"mode"` // run | inspect
	Prefix []int          `json:"prefix"`
	Policy map[string]int `json:"policy,omitempty"`
	Devs   int            `json:"devs"`
	// WantSites: sites (and sizes) the replayed prefix must meet, for divergence detection.
	WantSites []string `json:"want_sites,omitempty"`
	Full      bool     `json:"full,omitempty"` // return the complete observation (baseline)
}

type result struct {
	ID       int               `json:"id"`
	Status   string            `json:"status"`
	Digest   string            `json:"digest"`
	Obs      map[string]string `json:"obs,omitempty"`
	Trace    []verifsched.Point `json:"trace"`
	Canary   string            `json:"canary"`
	Diverged string            `json:"diverged,omitempty"`
	Panic    string            `json:"panic,omitempty"`
	Err      string            `json:"err,omitempty"`
}

// execute runs one execution of the real pipeline under the given schedule.
func execute(dir string, j job) result {
	res := result{ID: j.ID}
	obs := map[string]string{}
	cfg := filepath.Join(dir, j.Scn, "pipeline.yaml")
	verifsched.Begin(j.Prefix, j.Policy)
	// canary: a two-entry map iterated through the scheduler (non-vacuity)
	for k := range verifsched.Map(map[string]int{"c1": 1, "c2": 2}, "verif.canary") {
		res.Canary += k
	}
	p := vx.Catch(func() {
		switch j.Mode {
		case "run":
			pl, err := codegen.PipelineFromFile(cfg, codegen.Parameters(map[string]string{"extra_one": "1", "extra_two": "%extra_one%2"}))
			if err != nil {
				obs["!status"] = "config-error"
				res.Err = err.Error()
				return
			}
			fs, err := pl.Run(context.Background())
			if err != nil {
				obs["!status"] = "error"
				res.Err = err.Error()
				return
			}
			obs["!status"] = "ok"
			for _, f := range fs.AsFiles() {
				h := sha256.Sum256(f.Data)
				obs["file:"+f.RelativePath] = fmt.Sprintf("%x", h[:8])
			}
		case "inspect":
			pl, err := codegen.PipelineFromFile(cfg, codegen.Parameters(map[string]string{"extra_one": "1", "extra_two": "%extra_one%2"}))
			if err != nil {
				obs["!status"] = "config-error"
				res.Err = err.Error()
				return
			}
			schemas, err := pl.LoadSchemas(context.Background())
			if err != nil {
				obs["!status"] = "error"
				res.Err = err.Error()
				return
			}
			obs["!status"] = "ok"
			b, _ := json.Marshal(schemas)
			h := sha256.Sum256(b)
			obs["ir:common"] = fmt.Sprintf("%x", h[:8])
			langs, err := pl.OutputLanguages()
			if err != nil {
				obs["!status"] = "error"
				res.Err = err.Error()
				return
			}
			names := make([]string, 0, len(langs))
			byName := map[string]languages.Language{}
			for n, l := range langs { // harness-side map: order fixed by the sort below
				names = append(names, n)
				byName[n] = l
			}
			sort.Strings(names)
			for _, n := range names {
				ctx, err := pl.ContextForLanguage(byName[n], schemas)
				if err != nil {
					obs["ir:"+n] = "error"
					res.Err = err.Error()
					continue
				}
				b, _ := json.Marshal(ctx)
				h := sha256.Sum256(b)
				obs["ir:"+n] = fmt.Sprintf("%x", h[:8])
			}
		}
	})
	res.Trace = verifsched.End()
	if p != nil {
		obs["!status"] = "panic"
		res.Panic = fmt.Sprint(p)
		if strings.Contains(res.Panic, "verifsched:") {
			res.Diverged = res.Panic
		}
	}
	// divergence: the replayed prefix must meet the recorded sites
	for i, w := range j.WantSites {
		if i >= len(res.Trace) {
			res.Diverged = fmt.Sprintf("trace ends at %d, expected %s at %d", len(res.Trace), w, i)
			break
		}
		if got := fmt.Sprintf("%s/%d", res.Trace[i].Site, res.Trace[i].N); got != w {
			res.Diverged = fmt.Sprintf("point %d: got %s want %s", i, got, w)
			break
		}
	}
	res.Status = obs["!status"]
	keys := make([]string, 0, len(obs))
	for k := range obs {
		keys = append(keys, k)
	}
	sort.Strings(keys)
	h := sha256.New()
	for _, k := range keys {
		fmt.Fprintf(h, "%s=%s\n", k, obs[k])
	}
	res.Digest = fmt.Sprintf("%x", h.Sum(nil)[:8])
	res.Obs = obs
	return res
}

func workerMain(dir string) {
	in := bufio.NewScanner(os.Stdin)
	in.Buffer(make([]byte, 1<<20), 1<<26)
	out := bufio.NewWriter(os.Stdout)
	for in.Scan() {
		var j job
		if err := json.Unmarshal(in.Bytes(), &j); err != nil {
			fmt.Fprintln(os.Stderr, "worker: bad job:", err)
			os.Exit(2)
		}
		r := execute(dir, j)
		b, _ := json.Marshal(r)
		out.Write(b)
		out.WriteByte('\n')
		out.Flush()
	}
}

type worker struct {
	cmd *exec.Cmd
	in  *bufio.Writer
	out *bufio.Scanner
}

func startWorker(dir string) *worker {
	cmd := exec.Command(os.Args[0], "--worker", "--dir", dir)
	cmd.Stderr = os.Stderr
	cmd.Env = append(os.Environ(), "GOMAXPROCS=2")
	stdin, _ := cmd.StdinPipe()
	stdout, _ := cmd.StdoutPipe()
	if err := cmd.Start(); err != nil {
		vx.Fatalf("starting worker: %v", err)
	}
	sc := bufio.NewScanner(stdout)
	sc.Buffer(make([]byte, 1<<20), 1<<26)
	return &worker{cmd: cmd, in: bufio.NewWriter(stdin), out: sc}
}

func (w *worker) do(j job) result {
	b, _ := json.Marshal(j)
	w.in.Write(b)
	w.in.WriteByte('\n')
	w.in.Flush()
	if !w.out.Scan() {
		vx.Fatalf("worker died on job %+v", j)
	}
	var r result
	if err := json.Unmarshal(w.out.Bytes(), &r); err != nil {
		vx.Fatalf("worker: bad result: %v", err)
	}
	return r
}

// pool runs jobs on n workers; handle may enqueue more jobs.
type pool struct {
	mu      sync.Mutex
	cond    *sync.Cond
	queue   []job
	pending int
	nextID  int
}

func (p *pool) add(j job) {
	p.mu.Lock()
	p.nextID++
	j.ID = p.nextID
	p.queue = append(p.queue, j)
	p.pending++
	p.mu.Unlock()
	p.cond.Signal()
}

func (p *pool) run(dir string, n int, handle func(j job, r result)) {
	var wg sync.WaitGroup
	for i := 0; i < n; i++ {
		wg.Add(1)
		go func() {
			defer wg.Done()
			w := startWorker(dir)
			defer func() { w.in.Flush(); w.cmd.Process.Kill(); w.cmd.Wait() }()
			for {
				p.mu.Lock()
				for len(p.queue) == 0 && p.pending > 0 {
					p.cond.Wait()
				}
				if len(p.queue) == 0 && p.pending == 0 {
					p.mu.Unlock()
					p.cond.Broadcast()
					return
				}
				j := p.queue[0]
				p.queue = p.queue[1:]
				p.mu.Unlock()
				r := w.do(j)
				handle(j, r)
				p.mu.Lock()
				p.pending--
				done := p.pending == 0
				p.mu.Unlock()
				if done {
					p.cond.Broadcast()
				}
			}
		}()
	}
	wg.Wait()
}

func diffObs(base, got map[string]string) (class string, keys []string) {
	for k, v := range base {
		if k == "!status" {
			continue
		}
		if g, ok := got[k]; !ok {
			keys = append(keys, "-"+k)
		} else if g != v {
			keys = append(keys, "~"+k)
		}
	}
	for k := range got {
		if _, ok := base[k]; !ok && k != "!status" {
			keys = append(keys, "+"+k)
		}
	}
	sort.Strings(keys)
	switch {
	case base["!status"] != got["!status"]:
		class = "status flips " + base["!status"] + "→" + got["!status"]
	case len(keys) == 0:
		class = ""
	default:
		paths, content, ir := false, false, false
		for _, k := range keys {
			switch {
			case strings.HasPrefix(k[1:], "ir:"):
				ir = true
			case k[0] == '~':
				content = true
			default:
				paths = true
			}
		}
		var parts []string
		if paths {
			parts = append(parts, "file paths differ")
		}
		if content {
			parts = append(parts, "file contents differ")
		}
		if ir {
			parts = append(parts, "inspect IR differs")
		}
		class = strings.Join(parts, ", ")
	}
	return class, keys
}

func main() {
	isWorker := flag.Bool("worker", false, "internal: worker mode")
	dirFlag := flag.String("dir", "", "internal: scenario directory")
	r := vx.Start("C03")
	if *isWorker {
		workerMain(*dirFlag)
		return
	}
	r.PerKindSmallest = true
	dir, err := os.MkdirTemp("/var/tmp", "verif.c03.")
	if err != nil {
		vx.Fatalf("%v", err)
	}
	defer os.RemoveAll(dir)
	scns := writeScenarios(dir, r.Repo)
	// cog resolves relative output directories against the working directory
	os.Chdir(dir)

	bound := 1
	type key struct{ scn, mode string }
	var order []key
	for _, s := range scns {
		for _, m := range []string{"run", "inspect"} {
			order = append(order, key{s.Name, m})
		}
	}
	scnIndex := map[string]int{}
	scnReduced := map[string]bool{}
	for i, s := range scns {
		scnIndex[s.Name] = i
		scnReduced[s.Name] = s.Reduced
	}

	if r.Replay != "" {
		_, witness, detail := r.ReplayFile()
		var j job
		json.Unmarshal(detail, &j)
		base := execute(dir, job{Scn: j.Scn, Mode: j.Mode})
		got := execute(dir, j)
		class, keys := diffObs(base.Obs, got.Obs)
		fmt.Printf("replay %s: default digest %s, schedule digest %s, difference: %q %v\n", witness, base.Digest, got.Digest, class, keys)
		if class != "" {
			fmt.Printf("VIOLATION property=C03 replay=%s\n", r.Replay)
			os.RemoveAll(dir)
			os.Exit(1)
		}
		fmt.Println("replay: same observation as the default schedule on this tree")
		os.RemoveAll(dir)
		os.Exit(0)
	}

	// baselines: default schedule twice, identical (the harness owns all nondeterminism)
	baseline := map[key]result{}
	{
		w := startWorker(dir)
		w2 := startWorker(dir)
		for _, k := range order {
			a := w.do(job{Scn: k.scn, Mode: k.mode, Full: true})
			b := w2.do(job{Scn: k.scn, Mode: k.mode, Full: true})
			c := w.do(job{Scn: k.scn, Mode: k.mode, Full: true})
			if a.Digest != b.Digest || a.Digest != c.Digest || len(a.Trace) != len(b.Trace) {
				_, keys := diffObs(a.Obs, b.Obs)
				_, keys2 := diffObs(a.Obs, c.Obs)
				vx.Fatalf("scenario %s/%s: default schedule is not reproducible (%s vs %s vs %s; %v %v): nondeterminism outside the scheduler", k.scn, k.mode, a.Digest, b.Digest, c.Digest, keys, keys2)
			}
			if a.Status != "ok" {
				vx.Fatalf("scenario %s/%s does not run under the default schedule: status %s %s %s", k.scn, k.mode, a.Status, a.Panic, a.Err)
			}
			baseline[k] = a
		}
		w.cmd.Process.Kill()
		w2.cmd.Process.Kill()
		w.cmd.Wait()
		w2.cmd.Wait()
	}

	var mu sync.Mutex
	executions := 0
	digests := map[string]bool{}
	canaries := map[string]bool{}
	cappedPoints := 0
	completedBound := map[string]int{}
	siteDyn := map[string]int{}
	siteMax := map[string]int{}
	samples := &vx.Samples{N: 6}
	p := &pool{}
	p.cond = sync.NewCond(&p.mu)

	wantSites := func(tr []verifsched.Point, n int) []string {
		out := make([]string, 0, n)
		for i := 0; i < n && i < len(tr); i++ {
			out = append(out, fmt.Sprintf("%s/%d", tr[i].Site, tr[i].N))
		}
		return out
	}
	choicesOf := func(tr []verifsched.Point, n int) []int {
		out := make([]int, n)
		for i := 0; i < n; i++ {
			out[i] = tr[i].Choice
		}
		return out
	}
	expand := func(j job, tr []verifsched.Point, maxDev int) {
		if j.Devs >= maxDev {
			return
		}
		for i := len(j.Prefix); i < len(tr); i++ {
			for alt := 1; alt < tr[i].Alts; alt++ {
				p.add(job{Scn: j.Scn, Mode: j.Mode, Prefix: append(choicesOf(tr, i), alt), Devs: j.Devs + 1, WantSites: wantSites(tr, i+1)})
			}
		}
	}
	for _, k := range order {
		b := baseline[k]
		for _, pt := range b.Trace {
			siteDyn[pt.Site]++
			if pt.N > siteMax[pt.Site] {
				siteMax[pt.Site] = pt.N
			}
			if pt.Capped {
				cappedPoints++
			}
		}
		maxDev := bound
		if r.Thorough() && scnReduced[k.scn] {
			maxDev = 2
		}
		completedBound[k.scn+"/"+k.mode] = maxDev
		expand(job{Scn: k.scn, Mode: k.mode}, b.Trace, maxDev)
		// uniform site policies
		sites := map[string]bool{}
		for _, pt := range b.Trace {
			sites[pt.Site] = true
		}
		var sl []string
		for s := range sites {
			sl = append(sl, s)
		}
		sort.Strings(sl)
		for _, s := range sl {
			for _, pol := range []int{verifsched.PolicyReverse, verifsched.PolicyRotate} {
				p.add(job{Scn: k.scn, Mode: k.mode, Policy: map[string]int{s: pol}, Devs: 99})
			}
		}
		if r.Thorough() {
			for i, s := range sl {
				for _, s2 := range sl[i+1:] {
					p.add(job{Scn: k.scn, Mode: k.mode, Policy: map[string]int{s: verifsched.PolicyReverse, s2: verifsched.PolicyReverse}, Devs: 99})
				}
			}
			all := map[string]int{}
			for _, s := range sl {
				all[s] = verifsched.PolicyReverse
			}
			p.add(job{Scn: k.scn, Mode: k.mode, Policy: all, Devs: 99})
		}
	}

	handle := func(j job, res result) {
		mu.Lock()
		executions++
		digests[j.Scn+"/"+j.Mode+":"+res.Digest] = true
		canaries[res.Canary] = true
		mu.Unlock()
		if res.Diverged != "" {
			vx.Fatalf("replay diverged in %s/%s prefix=%v: %s", j.Scn, j.Mode, j.Prefix, res.Diverged)
		}
		k := key{j.Scn, j.Mode}
		base := baseline[k]
		maxDev := completedBound[j.Scn+"/"+j.Mode]
		if j.Devs < 99 {
			expand(j, res.Trace, maxDev)
		}
		class, keys := diffObs(base.Obs, res.Obs)
		if len(j.Prefix) > 0 && len(j.Prefix) <= 3 {
			samples.Add(map[string]any{"scenario": j.Scn, "mode": j.Mode, "schedule": j.Prefix, "deviating_site": res.Trace[len(j.Prefix)-1].Site, "same_as_default": class == ""})
		}
		if class == "" {
			return
		}
		// the responsible site(s): the deviating points of this schedule
		var sites []string
		if j.Policy != nil {
			for s := range j.Policy {
				sites = append(sites, s)
			}
		} else {
			for i, c := range j.Prefix {
				if c != 0 && i < len(res.Trace) {
					sites = append(sites, res.Trace[i].Site)
				}
			}
		}
		sort.Strings(sites)
		sites = uniq(sites)
		if len(sites) > 1 {
			// multi-deviation schedules are only reported when no single-site failure explains them;
			// kinds stay per site set
		}
		if len(keys) > 6 {
			keys = append(keys[:6], fmt.Sprintf("… %d more", len(keys)-6))
		}
		size := scnIndex[j.Scn]*1000000 + len(j.Prefix)*10
		if j.Policy != nil {
			size += 500000
		}
		if j.Mode == "inspect" {
			size++
		}
		r.Fail(vx.Failure{
			Kind:    fmt.Sprintf("order-dependent %s: %s", strings.Join(sites, " + "), class),
			Witness: fmt.Sprintf("%s/%s schedule=%v policy=%v", j.Scn, j.Mode, j.Prefix, policyStr(j.Policy)),
			Size:    size,
			What:    fmt.Sprintf("scenario %s (%s): iterating %s in another order changes the output (%s): %v", j.Scn, j.Mode, strings.Join(sites, " + "), class, keys),
			Detail:  j,
		})
	}
	p.run(dir, runtime.NumCPU(), handle)

	// suppress multi-site kinds that are explained by a failing single site
	single := map[string]bool{}
	for _, f := range r.Frontier() {
		if !strings.Contains(f.Kind, " + ") {
			single[strings.SplitN(strings.TrimPrefix(f.Kind, "order-dependent "), ":", 2)[0]] = true
		}
	}
	r.DropIf(func(f vx.Failure) bool {
		if !strings.Contains(f.Kind, " + ") {
			return false
		}
		sites := strings.Split(strings.SplitN(strings.TrimPrefix(f.Kind, "order-dependent "), ":", 2)[0], " + ")
		for _, s := range sites {
			if single[s] {
				return true
			}
		}
		return false
	})

	if !canaries["c1c2"] || !canaries["c2c1"] {
		vx.Fatalf("canary map was never iterated in both orders (%v): the scheduler is not driving the execution", canaries)
	}
	var perSite []string
	var notExercised []string
	rep := readReport(r.Root)
	for _, s := range rep.Sites {
		if siteMax[s] >= 2 {
			perSite = append(perSite, fmt.Sprintf("%s: max %d keys, %d dynamic points", s, siteMax[s], siteDyn[s]))
		} else {
			notExercised = append(notExercised, s)
		}
	}
	var bounds []string
	for k, v := range completedBound {
		bounds = append(bounds, fmt.Sprintf("%s: d<=%d", k, v))
	}
	sort.Strings(bounds)
	scnNames := []string{}
	for _, s := range scns {
		scnNames = append(scnNames, s.Name)
	}
	os.Chdir("/")
	os.RemoveAll(dir) // Finish exits the process: deferred calls do not run
	r.Finish(map[string]any{
		"states":                        len(digests),
		"transitions":                   executions,
		"traces_validated_against_impl": executions,
		"samples":                       samples.L,
		"exhaustive":                    cappedPoints == 0,
		"schedules_explored":            executions,
		"distinct_observations":         len(digests),
		"scenarios":                     scnNames,
		"deviation_bound_completed":     bounds,
		"capped_points_in_default_runs": cappedPoints,
		"static_sites_instrumented":     len(rep.Sites),
		"sites_exercised_with_2plus_keys": perSite,
		"sites_not_exercised":           notExercised,
		"unmodelled":                    rep.Unmodelled,
		"canary_orders_seen":            len(canaries),
		"explanation":                   "every `range <map>` of cog and codejen is rewritten to ask a scheduler for the order; all schedules with at most d dynamic points departing from the canonical order are executed on the real pipeline (all n! orders for n<=4, rotations+reversal+adjacent transpositions above), plus uniform per-site reversal/rotation policies; every schedule must reproduce the default schedule's file set, file hashes and inspect IR",
	}, []string{
		"map iteration inside third-party libraries (cue, kin-openapi, yaml.v3, santhosh-tekuri) is not instrumented; cog's loops over their maps are",
		"a static site not reached with >=2 keys by any scenario is listed under sites_not_exercised, not claimed",
		"differing error text between schedules is not a violation; flipping between success and error is",
	})
}

func uniq(s []string) []string {
	var out []string
	for i, x := range s {
		if i == 0 || x != s[i-1] {
			out = append(out, x)
		}
	}
	return out
}

func policyStr(p map[string]int) string {
	if p == nil {
		return "-"
	}
	var parts []string
	for s, v := range p {
		parts = append(parts, fmt.Sprintf("%s=%d", s[strings.LastIndex(s, "/")+1:], v))
	}
	sort.Strings(parts)
	return strings.Join(parts, ",")
}

type rwReport struct {
	Sites      []string `json:"sites"`
	Unmodelled []string `json:"unmodelled"`
}

func readReport(root string) rwReport {
	var rep rwReport
	b, err := os.ReadFile(os.Getenv("VERIF_REWRITE_REPORT"))
	if err != nil {
		vx.Fatalf("rewriter report missing: %v", err)
	}
	json.Unmarshal(b, &rep)
	return rep
}
