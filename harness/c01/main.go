//go:build verif

// C01: documents the source schema accepts load into the generated Go types
// (standard and strict decoder) and round-trip. DESIGN.md §6 C01.
package main

import (
	"encoding/json"
	"fmt"
	"os"
	"regexp"
	"sort"
	"strings"
	"sync"

	"github.com/grafana/cog/verifx/genrun"
	"github.com/grafana/cog/verifx/gschema"
	"github.com/grafana/cog/verifx/vx"
)

var (
	reQuoted = regexp.MustCompile(`"[^"]*"|'[^']*'`)
	reDigits = regexp.MustCompile(`[0-9]+`)
	reIDs    = regexp.MustCompile(`s[0-9]{4}[joc]`)
)

func normDiag(s string) string {
	s = reIDs.ReplaceAllString(s, "<id>")
	s = reQuoted.ReplaceAllString(s, `"…"`)
	s = reDigits.ReplaceAllString(s, "N")
	if len(s) > 140 {
		s = s[:140]
	}
	return strings.TrimSpace(s)
}

// fieldClass describes the type of the (first non-trivial) field of the root, abstracting leaves.
func shapeClass(s gschema.Schema) string {
	t := s.Objs[0].T
	if t.K != "struct" || len(t.Sub) == 0 {
		return t.K
	}
	var parts []string
	for i, f := range t.Fields {
		req := "required"
		if !f.Required {
			req = "optional"
		}
		parts = append(parts, req+" "+typeClass(t.Sub[i]))
	}
	return strings.Join(parts, " + ")
}

func typeClass(t gschema.Term) string {
	s := ""
	switch t.K {
	case "scalar":
		s = t.A
		if t.Constr {
			s += "[c]"
		}
	case "array", "map":
		inner := t.Sub[len(t.Sub)-1]
		s = t.K + " of " + typeClass(inner)
	case "struct":
		var p []string
		for i, f := range t.Fields {
			q := ""
			if !f.Required {
				q = "?"
			}
			p = append(p, f.Name+q+":"+typeClass(t.Sub[i]))
		}
		s = "{" + strings.Join(p, ",") + "}"
	case "disj":
		var p []string
		for _, b := range t.Sub {
			p = append(p, typeClass(b))
		}
		s = "(" + strings.Join(p, "|") + ")"
	default:
		s = t.K + "(" + t.A + ")"
	}
	if t.Nullable {
		s += "?"
	}
	if t.Default != "" {
		s += "=default"
	}
	return s
}

// dropNullOptionals removes, guided by the schema, object members that are
// optional properties given as an explicit null (the one lenience the
// statement grants for the JSON-equality clause).
func dropNullOptionals(s gschema.Schema, t gschema.Term, v any, budget int) any {
	switch t.K {
	case "ref":
		target, ok := s.Lookup(strings.TrimPrefix(t.A, gschema.Pkg+"."))
		if !ok || budget <= 0 {
			return v
		}
		return dropNullOptionals(s, target, v, budget-1)
	case "struct":
		m, ok := v.(map[string]any)
		if !ok {
			return v
		}
		out := map[string]any{}
		for k, x := range m {
			out[k] = x
		}
		for i, f := range t.Fields {
			x, present := out[f.Name]
			if !present {
				continue
			}
			if x == nil && !f.Required {
				delete(out, f.Name)
				continue
			}
			out[f.Name] = dropNullOptionals(s, t.Sub[i], x, budget)
		}
		return out
	case "array":
		a, ok := v.([]any)
		if !ok {
			return v
		}
		out := make([]any, len(a))
		for i, x := range a {
			out[i] = dropNullOptionals(s, t.Sub[0], x, budget)
		}
		return out
	case "map":
		m, ok := v.(map[string]any)
		if !ok {
			return v
		}
		out := map[string]any{}
		for k, x := range m {
			out[k] = dropNullOptionals(s, t.Sub[1], x, budget)
		}
		return out
	case "disj":
		for _, b := range t.Sub {
			if b.K == "ref" || b.K == "struct" {
				if _, ok := v.(map[string]any); ok {
					return dropNullOptionals(s, b, v, budget)
				}
			}
		}
	}
	return v
}

func canonLenient(s gschema.Schema, doc string) (string, error) {
	dec := json.NewDecoder(strings.NewReader(doc))
	dec.UseNumber()
	var v any
	if err := dec.Decode(&v); err != nil {
		return "", err
	}
	v = dropNullOptionals(s, s.Objs[0].T, v, 3)
	b, _ := json.Marshal(v)
	return gschema.CanonJSON(string(b))
}

func main() {
	r := vx.Start("C01")
	genrun.MaybeServe()
	// frontier by parents only: several minimal witnesses of one kind are all reported
	schemas := allSchemas(r.Thorough())
	if r.Replay != "" {
		_, witness, _ := r.ReplayFile()
		want := witness[strings.Index(witness, " :: ")+4:]
		var pick []gschema.Schema
		for _, s := range allSchemas(true) {
			if s.String() == want {
				pick = append(pick, s)
			}
		}
		if len(pick) == 0 {
			vx.Fatalf("replay: schema %q is not in grammar G", want)
		}
		schemas = pick[:1]
		fmt.Println("replaying", witness)
	}
	ws := genrun.NewWorkspace("c01")
	defer ws.Close()
	prep, err := genrun.PrepareGo(ws, schemas, func(u *genrun.Unit) {
		u.Go = &genrun.GoOpts{JSONMarshaller: true, StrictUnmarshaller: true}
	}, nil, nil)
	if err != nil {
		ws.Close()
		vx.Fatalf("%v", err)
	}
	defer prep.Driver.Close()

	samples := &vx.Samples{N: 8}
	var mu sync.Mutex
	counts := map[string]int{}
	bump := func(k string) { mu.Lock(); counts[k]++; mu.Unlock() }
	distinctOutcomes := map[string]bool{}
	executions := 0

	fail := func(c *genrun.Case, clause, diag, doc, what string) {
		kind := clause
		if d := normDiag(diag); d != "" {
			kind += ": " + d
		}
		r.Fail(vx.Failure{
			Kind:    kind,
			Witness: c.Format + " :: " + c.Schema.String(),
			Size:    c.Schema.Size()*10 + formatRank(c.Format),
			Parents: genrun.CaseParents(c.Schema, c.Format),
			What:    fmt.Sprintf("%s schema %s, document %s: %s", c.Format, c.Schema.String(), doc, what),
			Detail:  map[string]any{"format": c.Format, "schema_index": c.Index, "schema": c.Schema.String(), "doc": doc, "input": c.Unit.Files},
		})
	}

	for _, c := range prep.Cases {
		switch {
		case c.Result.Status != "ok":
			bump("generation-" + c.Result.Status)
			fail(c, "generation-"+c.Result.Status, c.Result.Err+" "+c.Result.PanicSite, "-", "generation fails for a schema of the supported grammar: "+c.Result.Err)
			continue
		case len(c.CompileErrs) > 0:
			bump("blocked_by=C02")
			continue
		case !c.InDriver:
			bump("no-package-generated")
			fail(c, "no-package", "no Go package for the schema", "-", "the run succeeds but generates no Go package for the schema's package")
			continue
		}
		bump("cases-judged")
		vals := prep.Validators[c.Index]
		own, ok := vals[c.Format]
		if !ok {
			bump("no-reference-validator")
			continue
		}
		for _, doc := range c.Schema.Documents() {
			accepted, agree := gschema.Accepted(vals, doc)
			if !agree {
				bump("docs-validators-disagree")
				continue
			}
			if !accepted {
				bump("docs-rejected-by-schema")
				continue
			}
			bump("docs-valid")
			executions++
			resp, died := prep.Driver.Do(map[string]any{"op": "roundtrip", "type": c.RootType(), "doc": doc})
			if died {
				fail(c, "crash", "generated code kills the process", doc, "the generated code crashes the process (fatal error or hang)")
				continue
			}
			if e, _ := resp["error"].(string); e != "" {
				fail(c, "no-root-type", e, doc, "the generated package has no type for the root object: "+e)
				break
			}
			outcome := "ok"
			if p, ok := resp["decode_panic"]; ok {
				fail(c, "decode-panic", fmt.Sprint(p), doc, fmt.Sprintf("json.Unmarshal panics: %v", p))
				outcome = "decode-panic"
			} else if e := resp["decode_err"]; e != nil {
				fail(c, "decode-error", fmt.Sprint(e), doc, fmt.Sprintf("the schema accepts the document but json.Unmarshal fails: %v", e))
				outcome = "decode-error"
			}
			if has, _ := resp["has_strict"].(bool); !has {
				if _, p := resp["strict_panic"]; p {
					fail(c, "strict-panic", fmt.Sprint(resp["strict_panic"]), doc, fmt.Sprintf("UnmarshalJSONStrict panics: %v", resp["strict_panic"]))
				} else if c.Schema.Objs[0].T.K == "struct" {
					fail(c, "no-strict-decoder", "no UnmarshalJSONStrict method", doc, "generate_strict_unmarshaller is set but the root type has no UnmarshalJSONStrict")
				}
			} else if e := resp["strict_err"]; e != nil {
				fail(c, "strict-decode-error", fmt.Sprint(e), doc, fmt.Sprintf("the schema accepts the document but UnmarshalJSONStrict fails: %v", e))
				outcome += "+strict-error"
			}
			want, err := canonLenient(c.Schema, doc)
			if err != nil {
				vx.Fatalf("bad document %s: %v", doc, err)
			}
			for _, key := range []string{"reencoded", "strict_reencoded"} {
				re, ok := resp[key].(string)
				if !ok {
					continue
				}
				which := map[string]string{"reencoded": "re-encoding", "strict_reencoded": "re-encoding after strict decoding"}[key]
				if !own(re) {
					fail(c, which+" rejected by the schema", "", doc, fmt.Sprintf("%s %s is no longer accepted by the source schema", which, re))
					outcome += "+reencoded-invalid"
				}
				got, err := canonLenient(c.Schema, re)
				if err != nil {
					fail(c, which+" is not JSON", err.Error(), doc, which+" is not valid JSON: "+re)
					continue
				}
				if got != want {
					fail(c, which+" differs", diffClass(want, got), doc, fmt.Sprintf("%s %s is not JSON-equal to the original", which, re))
					outcome += "+differs"
				}
			}
			mu.Lock()
			distinctOutcomes[outcome] = true
			mu.Unlock()
			if outcome == "ok" {
				samples.Add(map[string]any{"format": c.Format, "schema": c.Schema.String(), "document": doc, "reencoded": resp["reencoded"]})
			}
		}
	}
	var cnt []string
	for k, v := range counts {
		cnt = append(cnt, fmt.Sprintf("%s=%d", k, v))
	}
	sort.Strings(cnt)
	var skipped []string
	for f, n := range prep.Skipped {
		skipped = append(skipped, fmt.Sprintf("%s=%d", f, n))
	}
	sort.Strings(skipped)
	prep.Driver.Close()
	ws.Close()
	if r.Replay != "" {
		kind, witness, _ := r.ReplayFile()
		hit := false
		for _, f := range r.Frontier() {
			fmt.Println("  ", f.Kind, "@", f.Witness, "\n     ", f.What)
			if f.Kind == kind && f.Witness == witness {
				hit = true
			}
		}
		if hit {
			fmt.Printf("VIOLATION property=C01 replay=%s\n", r.Replay)
			os.Exit(1)
		}
		fmt.Println("replay: the recorded failure does not occur on this tree")
		os.Exit(0)
	}
	r.Finish(map[string]any{
		"states":                        len(prep.Cases),
		"transitions":                   executions + len(prep.Cases),
		"traces_validated_against_impl": executions + len(prep.Cases),
		"samples":                       samples.L,
		"exhaustive":                    true,
		"abstract_schemas":              len(schemas),
		"schema_format_cases":           len(prep.Cases),
		"documents_round_tripped":       executions,
		"counts":                        cnt,
		"formats_skipped":               skipped,
		"distinct_outcomes":             len(distinctOutcomes),
		"explanation":                   "grammar G enumerated completely for the tier; each schema rendered in every format that can express it, generated by the real pipeline (Go, json marshaller + strict unmarshaller), compiled and linked into one driver; every document of the alphabet that all reference validators accept is decoded (std + strict), re-encoded, re-validated and compared",
	}, []string{
		"numbers compared as exact rationals, key order free, optional properties given as explicit null may be absent",
		"documents on which the reference validators disagree are excluded; packages that do not compile are blocked_by=C02",
		"ill-formed date-times and lexical variants of numbers are outside the document alphabet",
	})
}

func formatRank(f string) int {
	for i, x := range gschema.Formats {
		if x == f {
			return i
		}
	}
	return 9
}

// diffClass names what differs between two canonical JSON texts at the coarsest useful level.
func diffClass(want, got string) string {
	var a, b any
	json.Unmarshal([]byte(want), &a)
	json.Unmarshal([]byte(got), &b)
	return diffValue(a, b)
}

func diffValue(a, b any) string {
	switch x := a.(type) {
	case map[string]any:
		y, ok := b.(map[string]any)
		if !ok {
			return fmt.Sprintf("object became %T", b)
		}
		for k, v := range x {
			w, ok := y[k]
			if !ok {
				return "member dropped: " + valueClass(v)
			}
			if d := diffValue(v, w); d != "" {
				return d
			}
		}
		for k, w := range y {
			if _, ok := x[k]; !ok {
				return "member added: " + valueClass(w)
			}
		}
		return ""
	case []any:
		y, ok := b.([]any)
		if !ok {
			return fmt.Sprintf("array became %s", valueClass(b))
		}
		if len(x) != len(y) {
			return "array length changed"
		}
		for i := range x {
			if d := diffValue(x[i], y[i]); d != "" {
				return d
			}
		}
		return ""
	}
	ja, _ := json.Marshal(a)
	jb, _ := json.Marshal(b)
	if string(ja) != string(jb) {
		return valueClass(a) + " became " + valueClass(b)
	}
	return ""
}

func valueClass(v any) string {
	switch x := v.(type) {
	case nil:
		return "null"
	case map[string]any:
		if len(x) == 0 {
			return "empty object"
		}
		return "object"
	case []any:
		if len(x) == 0 {
			return "empty array"
		}
		return "array"
	case string:
		return "string"
	case bool:
		return "bool"
	}
	return "number"
}
