//go:build verif

package main

import (
	"sort"

	"github.com/grafana/cog/verifx/gschema"
	"github.com/grafana/cog/verifx/irgen"
)

// extraSchemas are members of the input space that only C01 enumerates (the
// other generated-code checks share gschema.Enumerate): spellings and
// positions that all mean "this may be null".
func extraSchemas(thorough bool) []gschema.Schema {
	var out []gschema.Schema
	// JSON Schema type lists, null last and null first
	scalars := []string{"string", "int64", "float64", "bool"}
	for _, k := range scalars {
		for _, style := range []int{gschema.TypeListNullLast, gschema.TypeListNullFirst} {
			t := irgen.Nullable(irgen.S(k))
			t.Hints = style
			out = append(out, gschema.Field1(t, true), gschema.Field1(t, false))
			if thorough {
				out = append(out, gschema.Field1(irgen.Array(t), false), gschema.Field1(irgen.Map(t), false))
			}
		}
	}
	// nullable inline structs (OpenAPI `nullable: true` on an object, `{…} | null`
	// elsewhere) in required / optional / item / value positions
	structs := []irgen.Term{
		irgen.Nullable(irgen.Struct1("g", true, irgen.S("string"))),
		irgen.Nullable(irgen.Struct1("g", false, irgen.S("int64"))),
	}
	for _, st := range structs {
		out = append(out,
			gschema.Field1(st, true), gschema.Field1(st, false),
			gschema.Field1(irgen.Array(st), true), gschema.Field1(irgen.Array(st), false),
			gschema.Field1(irgen.Map(st), true), gschema.Field1(irgen.Map(st), false),
			gschema.Field1(irgen.Struct1("h", true, st), true),
		)
	}
	return out
}

// allSchemas is Enumerate plus the extras, without duplicates, smallest first.
func allSchemas(thorough bool) []gschema.Schema {
	seen := map[string]bool{}
	var out []gschema.Schema
	for _, s := range append(gschema.Enumerate(thorough), extraSchemas(thorough)...) {
		if k := s.String(); !seen[k] {
			seen[k] = true
			out = append(out, s)
		}
	}
	sort.SliceStable(out, func(i, j int) bool { return out[i].Size() < out[j].Size() })
	return out
}
