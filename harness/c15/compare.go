//go:build verif

package main

import (
	"fmt"
	"sort"
	"strings"

	"github.com/grafana/cog/internal/ast"
	"github.com/grafana/cog/verifx/refl"
)

// finding is one normalised difference between cog's result and the model.
type finding struct {
	Kind string
	What string
}

// variantLabel is the target class named in failure kinds: "no target" when
// nothing in the pre-state matched the parameters (whatever the static class
// of the operation), else the static class.
func variantLabel(o op, c *mctx) string {
	if c != nil && !c.matched {
		return "no target"
	}
	v := coarse(o.Variant)
	if c != nil && c.inexact {
		return "othercase"
	}
	if v == "othercase" {
		return "exact"
	}
	return v
}

// coarse maps a variant label to its class (the part before the first '-').
func coarse(variant string) string {
	if i := strings.Index(variant, "-"); i > 0 {
		return variant[:i]
	}
	return variant
}

// culprit normalises a refl.Diff path to the innermost two declared fields
// plus the context that matters for these transformations.
func culprit(path string) string {
	segs := strings.Split(strings.Trim(refl.AbstractPath(path), "/"), "/")
	var names []string
	for _, s := range segs {
		if s == "" {
			continue
		}
		// "Type.Struct" -> "Struct", "StructType.Fields[*]" -> "Fields[*]", ".(string)" dropped
		if i := strings.Index(s, ".("); i >= 0 {
			s = s[:i]
		}
		if i := strings.Index(s, "."); i >= 0 {
			s = s[i+1:]
		}
		if s != "" {
			names = append(names, s)
		}
	}
	ctx := ""
	joined := strings.Join(names, "/")
	if strings.Contains(joined, "IndexType") {
		ctx = " in map index type"
	}
	if strings.Contains(joined, "Hints[") {
		ctx += " in hints"
	}
	if len(names) > 2 {
		names = names[len(names)-2:]
	}
	if len(names) == 2 {
		switch names[1] {
		case "Nullable", "Default", "Hints", "Kind":
			names[0] = "Type" // attributes of a type, wherever it is nested
		}
	}
	return strings.Join(names, ".") + ctx
}

func pathKeys(diffs []string) []string {
	var out []string
	for _, d := range diffs {
		if i := strings.Index(d, ": "); i >= 0 {
			d = d[:i]
		}
		out = append(out, d)
	}
	return out
}

func related(p string, set []string) bool {
	for _, q := range set {
		if strings.HasPrefix(p, q) || strings.HasPrefix(q, p) {
			return true
		}
	}
	return false
}

// direction classifies a differing position: the model changed it and cog did
// not ("not applied"), cog changed it and the model did not ("unexpected
// change"), or both changed it differently ("wrong result").
func direction(p string, dm, dr []string) string {
	m, r := related(p, dm), related(p, dr)
	switch {
	case m && !r:
		return "not applied"
	case !m && r:
		return "unexpected change"
	default:
		return "wrong result"
	}
}

func findObj(p *mSchema, key string) *mObj {
	if p == nil {
		return nil
	}
	for i := range p.Objects {
		if p.Objects[i].Key == key {
			return &p.Objects[i]
		}
	}
	return nil
}

func keysOf(p *mSchema) []string {
	var k []string
	for _, o := range p.Objects {
		k = append(k, o.Key)
	}
	return k
}

// diffStates lists the differences between the model's post-state and cog's
// (all three states normalised the same way, trails removed).
func diffStates(o op, v string, renames map[string]string, pre, want, got mState) []finding {
	var out []finding
	add := func(kind, what string) { out = append(out, finding{Kind: kind, What: what}) }
	pk := func(s mState) string {
		var n []string
		for _, p := range s {
			n = append(n, p.Package)
		}
		return strings.Join(n, ",")
	}
	if pk(want) != pk(got) {
		add(fmt.Sprintf("%s: package list differs (%s)", o.T, v), fmt.Sprintf("packages: model [%s] cog [%s]", pk(want), pk(got)))
		return out
	}
	for i, w := range want {
		g := got[i]
		var p *mSchema
		if i < len(pre) && pre[i].Package == w.Package {
			p = pre[i]
		}
		schemaField := func(name, pv, wv, gv string) {
			if wv == gv {
				return
			}
			switch {
			case p != nil && pv == wv:
				add(fmt.Sprintf("frame: schema %s changed by %s (%s)", name, o.T, v), fmt.Sprintf("package %s: %s was %s, must stay, cog gives %s", w.Package, name, pv, gv))
			case p != nil && pv == gv:
				add(fmt.Sprintf("%s: not applied at schema %s (%s)", o.T, name, v), fmt.Sprintf("package %s: %s stays %s, model gives %s", w.Package, name, gv, wv))
			default:
				add(fmt.Sprintf("%s: wrong result at schema %s (%s)", o.T, name, v), fmt.Sprintf("package %s: %s: model %s cog %s", w.Package, name, wv, gv))
			}
		}
		var pm, pe, pt string
		if p != nil {
			pm, pe, pt = refl.Canon(p.Metadata), p.EntryPoint, refl.Canon(p.EntryPointType)
		}
		schemaField("Metadata", pm, refl.Canon(w.Metadata), refl.Canon(g.Metadata))
		schemaField("EntryPoint", pe, w.EntryPoint, g.EntryPoint)
		schemaField("EntryPointType", pt, refl.Canon(w.EntryPointType), refl.Canon(g.EntryPointType))

		wk, gk := keysOf(w), keysOf(g)
		inW, inG := map[string]bool{}, map[string]bool{}
		for _, k := range wk {
			inW[k] = true
		}
		for _, k := range gk {
			inG[k] = true
		}
		sameSet := len(wk) == len(gk)
		for _, k := range wk {
			if inG[k] {
				continue
			}
			sameSet = false
			if findObj(p, k) != nil {
				po, wo := findObj(p, k), findObj(w, k)
				if canonObj(*po) == canonObj(*wo) {
					add(fmt.Sprintf("frame: untargeted object lost by %s (%s)", o.T, v), fmt.Sprintf("object %s.%s must stay but is gone", w.Package, k))
				} else {
					add(fmt.Sprintf("%s: object lost (%s)", o.T, v), fmt.Sprintf("object %s.%s is gone", w.Package, k))
				}
			} else {
				add(fmt.Sprintf("%s: object not created (%s)", o.T, v), fmt.Sprintf("object %s.%s expected, absent in cog's result", w.Package, k))
			}
		}
		for _, k := range gk {
			if inW[k] {
				continue
			}
			sameSet = false
			if findObj(p, k) != nil {
				add(fmt.Sprintf("%s: object not removed (%s)", o.T, v), fmt.Sprintf("object %s.%s must no longer be filed under that name", w.Package, k))
			} else {
				add(fmt.Sprintf("%s: unexpected object (%s)", o.T, v), fmt.Sprintf("object %s.%s appears in cog's result only", w.Package, k))
			}
		}
		if sameSet && strings.Join(wk, "\x00") != strings.Join(gk, "\x00") {
			add(fmt.Sprintf("%s: object order differs (%s)", o.T, v), fmt.Sprintf("package %s: model %v cog %v", w.Package, wk, gk))
		}
		for _, k := range wk {
			wo, gobj := findObj(w, k), findObj(g, k)
			if gobj == nil || canonObj(*wo) == canonObj(*gobj) {
				continue
			}
			po := findObj(p, k)
			if old, ok := renames[w.Package+"."+k]; ok && po == nil {
				po = findObj(p, old)
			}
			d := refl.Diff(wo.O, gobj.O, 12)
			var dm, dr []string
			untargeted := false
			if po != nil {
				dm, dr = pathKeys(refl.Diff(po.O, wo.O, 64)), pathKeys(refl.Diff(po.O, gobj.O, 64))
				untargeted = canonObj(*po) == canonObj(*wo)
			}
			for _, line := range d {
				path := pathKeys([]string{line})[0]
				c := culprit(path)
				what := fmt.Sprintf("object %s.%s %s (model vs cog)", w.Package, k, line)
				switch {
				case untargeted:
					add(fmt.Sprintf("frame: untargeted object changed by %s at %s (%s)", o.T, c, v), what)
				case po == nil:
					add(fmt.Sprintf("%s: created object differs at %s (%s)", o.T, c, v), what)
				default:
					add(fmt.Sprintf("%s: %s at %s (%s)", o.T, direction(path, dm, dr), c, v), what)
				}
			}
		}
	}
	return dedupe(out)
}

func dedupe(in []finding) []finding {
	seen := map[string]bool{}
	var out []finding
	for _, f := range in {
		if !seen[f.Kind] {
			seen[f.Kind] = true
			out = append(out, f)
		}
	}
	sort.SliceStable(out, func(i, j int) bool { return out[i].Kind < out[j].Kind })
	return out
}

// frameTrails: PassesTrail may grow on the touched object/field only. Objects
// (and, inside touched struct objects, fields) that the model leaves alone
// must be identical to the pre-state *including* their trails. Content
// differences are reported by diffStates; this adds the trail-only ones.
func frameTrails(o op, v string, pre, want, got mState) []finding {
	var out []finding
	stripObj := func(x mObj) string {
		return canonObj(normalise(mState{{Objects: []mObj{x}}}, normOpts{})[0].Objects[0])
	}
	for i, w := range want {
		if i >= len(got) || i >= len(pre) || got[i].Package != w.Package || pre[i].Package != w.Package {
			continue
		}
		p, g := pre[i], got[i]
		if refl.Canon(p.EntryPointType) == refl.Canon(w.EntryPointType) && refl.Canon(g.EntryPointType) != refl.Canon(p.EntryPointType) &&
			refl.Canon(normalise(mState{{EntryPointType: g.EntryPointType}}, normOpts{})) == refl.Canon(normalise(mState{{EntryPointType: p.EntryPointType}}, normOpts{})) {
			out = append(out, finding{Kind: fmt.Sprintf("frame: PassesTrail of an untargeted entry point type changed by %s (%s)", o.T, v), What: "package " + w.Package})
		}
		for _, wo := range w.Objects {
			po, gobj := findObj(p, wo.Key), findObj(g, wo.Key)
			if po == nil || gobj == nil {
				continue
			}
			if canonObj(*po) == canonObj(wo) {
				if canonObj(*gobj) != canonObj(*po) && stripObj(*gobj) == stripObj(*po) {
					d := refl.Diff(po.O, gobj.O, 2)
					out = append(out, finding{Kind: fmt.Sprintf("frame: PassesTrail of an untargeted object changed by %s (%s)", o.T, v),
						What: fmt.Sprintf("object %s.%s: %v", w.Package, wo.Key, d)})
				}
				continue
			}
			// touched object: look at its fields
			ps, ws, gs := po.O.Type.Struct, wo.O.Type.Struct, gobj.O.Type.Struct
			if ps == nil || ws == nil || gs == nil || len(ps.Fields) != len(ws.Fields) || len(ps.Fields) != len(gs.Fields) {
				continue
			}
			for fi := range ps.Fields {
				pf, wf, gf := ps.Fields[fi], ws.Fields[fi], gs.Fields[fi]
				if refl.Canon(pf) != refl.Canon(wf) || refl.Canon(gf) == refl.Canon(pf) {
					continue
				}
				strip := func(f ast.StructField) string {
					return refl.Canon(normalise(mState{{Objects: []mObj{{O: ast.Object{Type: ast.NewStruct(f)}}}}}, normOpts{}))
				}
				if strip(gf) == strip(pf) {
					out = append(out, finding{Kind: fmt.Sprintf("frame: PassesTrail of an untargeted field changed by %s (%s)", o.T, v),
						What: fmt.Sprintf("field %s.%s.%s: %v", w.Package, wo.Key, pf.Name, refl.Diff(pf, gf, 2))})
				}
			}
		}
	}
	return dedupe(out)
}

// judge compares cog's post-state with the acceptable model post-states.
// It returns the findings (empty: conforming) and the index of the
// alternative used.
func judge(o op, c *mctx, pre mState, alts []alt, got mState) ([]finding, int) {
	v := variantLabel(o, c)
	preN, gotN := normalise(pre, o.Norm), normalise(got, o.Norm)
	gotC := canonState(gotN)
	best, bestN := -1, 0
	var bestF []finding
	for i, a := range alts {
		if a.Err {
			continue
		}
		wantN := normalise(a.S, o.Norm)
		if canonState(wantN) == gotC {
			best, bestF = i, nil
			break
		}
		f := diffStates(o, v, c.renames, preN, wantN, gotN)
		if len(f) == 0 {
			// canonical forms differ but no difference was located: never silent
			f = []finding{{Kind: fmt.Sprintf("%s: result differs from the model (unlocated) (%s)", o.T, v), What: "canonical forms differ"}}
		}
		if best < 0 || len(f) < bestN {
			best, bestN, bestF = i, len(f), f
		}
	}
	if best < 0 {
		return nil, -1
	}
	keep := o.Norm
	keep.keepTrails = true
	tr := frameTrails(o, v, normalise(pre, keep), normalise(alts[best].S, keep), normalise(got, keep))
	return append(bestF, tr...), best
}
