//go:build verif

package main

import (
	"fmt"
	"sort"
	"strings"

	cog "github.com/grafana/cog"
	"github.com/grafana/cog/internal/ast"
	"github.com/grafana/cog/internal/ast/compiler"
	cogyaml "github.com/grafana/cog/internal/yaml"
	"gopkg.in/yaml.v3"
)

// An op is one letter of the alphabet: a transformation with concrete
// parameters. The 17 user-configurable transformations are written as the
// YAML text a user would put in a transformations file and are loaded through
// internal/yaml's CompilerLoader (so reference parsing and parameter decoding
// are on the executed path); the two library passes are built through the
// exported helpers of package cog. A fresh pass value is built for every
// execution, so no state is shared between two runs through a pass value.
type op struct {
	T       string // transformation name
	Variant string // exact | othercase | absent | otherpkg | nonstruct | ...
	Name    string // deterministic identity (the YAML text / the library call)
	YAML    string // one entry of the `passes:` list ("" for library passes)
	Lib     func() compiler.Pass
	Model   func(c *mctx, s mState) []alt
	Reduced bool // member of the reduced (thorough, depth 3) alphabet
	// norm: positions not judged for this transformation
	Norm normOpts
}

func (o op) pass() (compiler.Pass, error) {
	if o.Lib != nil {
		return o.Lib(), nil
	}
	passes, err := cogyaml.NewCompilerLoader().Load(strings.NewReader("passes:\n  - " + o.YAML + "\n"))
	if err != nil {
		return nil, err
	}
	if len(passes) != 1 {
		return nil, fmt.Errorf("expected one pass, got %d", len(passes))
	}
	return passes[0], nil
}

// ---- parameter menus (YAML text; the model decodes the same text) ----

const (
	tString   = `{kind: scalar, scalar: {scalar_kind: string}}`
	tInt      = `{kind: scalar, nullable: true, scalar: {scalar_kind: int64}}`
	tConstStr = `{kind: scalar, scalar: {scalar_kind: string, value: fixed}}`
	tEnumSp   = `{kind: enum, enum: {values: [{type: {kind: scalar, scalar: {scalar_kind: string}}, name: x, value: " x "}]}}`
)

func tRef(pkg, name string) string {
	return fmt.Sprintf(`{kind: ref, ref: {referred_pkg: %s, referred_type: %s}}`, pkg, name)
}
func tArrayOf(elem string) string { return `{kind: array, array: {value_type: ` + elem + `}}` }

func decodeType(src string) ast.Type {
	var t ast.Type
	dec := yaml.NewDecoder(strings.NewReader(src))
	dec.KnownFields(true)
	if err := dec.Decode(&t); err != nil {
		panic("c15: parameter type does not decode: " + src + ": " + err.Error())
	}
	return t
}

func decodeFields(src string) []ast.StructField {
	var f []ast.StructField
	dec := yaml.NewDecoder(strings.NewReader(src))
	dec.KnownFields(true)
	if err := dec.Decode(&f); err != nil {
		panic("c15: parameter fields do not decode: " + src + ": " + err.Error())
	}
	return f
}

func yamlList(items []string) string { return "[" + strings.Join(items, ", ") + "]" }

func commentsYAML(c []string) string {
	if c == nil {
		return ""
	}
	return ", comments: " + yamlList(c)
}

// ---- constructors: YAML text + model closure ----

func opRenameObject(variant, from, to string) op {
	y := fmt.Sprintf("rename_object: {from: %s, to: %s}", from, to)
	return op{T: "rename_object", Variant: variant, Name: y, YAML: y, Norm: normOpts{blankHintBranches: true},
		Model: func(c *mctx, s mState) []alt { return modelRenameObject(c, s, parseObjRef(from), to) }}
}

func opOmit(variant string, objects ...string) op {
	y := fmt.Sprintf("omit: {objects: %s}", yamlList(objects))
	return op{T: "omit", Variant: variant, Name: y, YAML: y, Model: func(c *mctx, s mState) []alt {
		var refs []objRef
		for _, o := range objects {
			refs = append(refs, parseObjRef(o))
		}
		return modelOmit(c, s, refs)
	}}
}

func fieldRefs(fields []string) []fieldRef {
	var refs []fieldRef
	for _, f := range fields {
		refs = append(refs, parseFieldRef(f))
	}
	return refs
}

func opOmitFields(variant string, fields ...string) op {
	y := fmt.Sprintf("omit_fields: {fields: %s}", yamlList(fields))
	return op{T: "omit_fields", Variant: variant, Name: y, YAML: y,
		Model: func(c *mctx, s mState) []alt { return modelOmitFields(c, s, fieldRefs(fields)) }}
}

func opAddFields(variant, to, fieldsYAML string) op {
	y := fmt.Sprintf("add_fields: {to: %s, fields: %s}", to, fieldsYAML)
	return op{T: "add_fields", Variant: variant, Name: y, YAML: y,
		Model: func(c *mctx, s mState) []alt { return modelAddFields(c, s, parseObjRef(to), decodeFields(fieldsYAML)) }}
}

func opAddObject(variant, object, as string, comments []string) op {
	y := fmt.Sprintf("add_object: {object: %s, as: %s%s}", object, as, commentsYAML(comments))
	return op{T: "add_object", Variant: variant, Name: y, YAML: y,
		Model: func(c *mctx, s mState) []alt {
			return modelAddObject(c, s, parseObjRef(object), decodeType(as), comments)
		}}
}

func opDuplicateObject(variant, object, as string, omit []string) op {
	y := fmt.Sprintf("duplicate_object: {object: %s, as: %s", object, as)
	if omit != nil {
		y += ", omit_fields: " + yamlList(omit)
	}
	y += "}"
	return op{T: "duplicate_object", Variant: variant, Name: y, YAML: y,
		Model: func(c *mctx, s mState) []alt {
			return modelDuplicateObject(c, s, parseObjRef(object), parseObjRef(as), omit)
		}}
}

func opRetypeObject(variant, object, as string, comments []string) op {
	y := fmt.Sprintf("retype_object: {object: %s, as: %s%s}", object, as, commentsYAML(comments))
	return op{T: "retype_object", Variant: variant, Name: y, YAML: y,
		Model: func(c *mctx, s mState) []alt {
			return modelRetypeObject(c, s, parseObjRef(object), decodeType(as), comments)
		}}
}

func opRetypeField(variant, field, as string, comments []string) op {
	y := fmt.Sprintf("retype_field: {field: %s, as: %s%s}", field, as, commentsYAML(comments))
	return op{T: "retype_field", Variant: variant, Name: y, YAML: y,
		Model: func(c *mctx, s mState) []alt {
			return modelRetypeField(c, s, parseFieldRef(field), decodeType(as), comments)
		}}
}

func opFieldsSetRequired(variant string, required bool, fields ...string) op {
	name := "fields_set_required"
	if !required {
		name = "fields_set_not_required"
	}
	y := fmt.Sprintf("%s: {fields: %s}", name, yamlList(fields))
	return op{T: name, Variant: variant, Name: y, YAML: y,
		Model: func(c *mctx, s mState) []alt { return modelFieldsSetRequired(c, s, fieldRefs(fields), required) }}
}

// opFieldsSetDefault: values are YAML scalars that decode to strings or bools
// (the decoded Go type of numbers is the loader's business, not this property's).
func opFieldsSetDefault(variant string, kv ...string) op {
	var parts []string
	var entries []defaultEntry
	for i := 0; i+1 < len(kv); i += 2 {
		parts = append(parts, kv[i]+": "+kv[i+1])
		var v any
		if err := yaml.Unmarshal([]byte(kv[i+1]), &v); err != nil {
			panic(err)
		}
		entries = append(entries, defaultEntry{Ref: parseFieldRef(kv[i]), Value: v})
	}
	y := fmt.Sprintf("fields_set_default: {defaults: {%s}}", strings.Join(parts, ", "))
	return op{T: "fields_set_default", Variant: variant, Name: y, YAML: y,
		Model: func(c *mctx, s mState) []alt { return modelFieldsSetDefault(c, s, entries) }}
}

func opReplaceReference(variant, from, to string) op {
	y := fmt.Sprintf("replace_reference: {from: %s, to: %s}", from, to)
	return op{T: "replace_reference", Variant: variant, Name: y, YAML: y, Norm: normOpts{blankHintBranches: true},
		Model: func(c *mctx, s mState) []alt { return modelReplaceReference(c, s, parseObjRef(from), parseObjRef(to)) }}
}

func opConstantToEnum(variant string, objects ...string) op {
	y := fmt.Sprintf("constant_to_enum: {objects: %s}", yamlList(objects))
	return op{T: "constant_to_enum", Variant: variant, Name: y, YAML: y, Model: func(c *mctx, s mState) []alt {
		var refs []objRef
		for _, o := range objects {
			refs = append(refs, parseObjRef(o))
		}
		return modelConstantToEnum(c, s, refs)
	}}
}

func opTrimEnumValues() op {
	y := "trim_enum_values: {}"
	return op{T: "trim_enum_values", Variant: "all", Name: y, YAML: y, Model: modelTrimEnumValues}
}

func opHintObject(variant, object, hintsYAML string) op {
	y := fmt.Sprintf("hint_object: {object: %s, hints: %s}", object, hintsYAML)
	return op{T: "hint_object", Variant: variant, Name: y, YAML: y, Model: func(c *mctx, s mState) []alt {
		var h map[string]any
		if err := yaml.Unmarshal([]byte(hintsYAML), &h); err != nil {
			panic(err)
		}
		return modelHintObject(c, s, parseObjRef(object), h)
	}}
}

func opSchemaSetIdentifier(variant, pkg, id string) op {
	y := fmt.Sprintf("schema_set_identifier: {package: %s, identifier: %s}", pkg, id)
	return op{T: "schema_set_identifier", Variant: variant, Name: y, YAML: y,
		Model: func(c *mctx, s mState) []alt { return modelSchemaSetIdentifier(c, s, pkg, id) }}
}

func opSchemaSetEntryPoint(variant, pkg, ep string) op {
	y := fmt.Sprintf("schema_set_entry_point: {package: %s, entry_point: %s}", pkg, ep)
	return op{T: "schema_set_entry_point", Variant: variant, Name: y, YAML: y,
		Model: func(c *mctx, s mState) []alt { return modelSchemaSetEntryPoint(c, s, pkg, ep) }}
}

func opPrefix(variant, prefix string) op {
	return op{T: "PrefixObjectNames", Variant: variant, Name: fmt.Sprintf("cog.PrefixObjectsNames(%q)", prefix),
		Lib:   func() compiler.Pass { return cog.PrefixObjectsNames(prefix) },
		Norm:  normOpts{blankEnumNames: true, blankHintBranches: true},
		Model: func(c *mctx, s mState) []alt { return modelPrefixObjectNames(c, s, prefix) }}
}

func opAppendComment(comment string) op {
	return op{T: "AppendCommentObjects", Variant: "all", Name: fmt.Sprintf("cog.AppendCommentToObjects(%q)", comment),
		Lib:   func() compiler.Pass { return cog.AppendCommentToObjects(comment) },
		Model: func(c *mctx, s mState) []alt { return modelAppendComment(c, s, comment) }}
}

// ---- alphabet of a seed ----

type objInfo struct {
	Pkg, Name string
	Struct    bool
	Fields    []ast.StructField
	StrConst  bool
	Enum      bool
}

func (o objInfo) ref() string { return o.Pkg + "." + o.Name }

// alphabet derives the operations from the content of the seed:
//
//	S  first struct object (with fields f = first field, opt = first optional
//	   field, req = first required field, last = last field)
//	N  first non-struct object
//	every object that is the target of a ref / constant ref (rename, replace)
//	C  first string constant, E first enum
//	otherPkg  the second package of the seed, else an absent package
//
// and for each transformation the parameterisations {exact, othercase,
// absent, otherpkg, nonstruct} plus a few multi-target ones.
func alphabet(seed mState) []op {
	var objs []objInfo
	var pkgs []string
	for _, p := range seed {
		pkgs = append(pkgs, p.Package)
		for _, o := range p.Objects {
			t := o.O.Type
			oi := objInfo{Pkg: p.Package, Name: o.O.Name}
			if t.Kind == ast.KindStruct && t.Struct != nil {
				oi.Struct, oi.Fields = true, t.Struct.Fields
			}
			if t.Kind == ast.KindScalar && t.Scalar != nil && t.Scalar.ScalarKind == ast.KindString && t.Scalar.Value != nil {
				oi.StrConst = true
			}
			oi.Enum = t.Kind == ast.KindEnum
			objs = append(objs, oi)
		}
	}
	pkg := pkgs[0]
	otherPkg := "zz"
	if len(pkgs) > 1 {
		otherPkg = pkgs[1]
	}
	const absentPkg = "nopkg"
	var S, N, C, E *objInfo
	for i := range objs {
		o := &objs[i]
		if o.Pkg != pkg {
			continue
		}
		if S == nil && o.Struct && len(o.Fields) > 0 {
			S = o
		}
		if N == nil && !o.Struct {
			N = o
		}
		if C == nil && o.StrConst {
			C = o
		}
		if E == nil && o.Enum {
			E = o
		}
	}
	if S == nil {
		panic("c15: seed without a struct object in its first package")
	}
	nName := "NoSuchAlias" // seeds without a non-struct object: the nonstruct variants degrade to absent
	if N != nil {
		nName = N.Name
	}
	f := S.Fields[0].Name
	last := S.Fields[len(S.Fields)-1].Name
	opt, req := f, f
	for i := len(S.Fields) - 1; i >= 0; i-- {
		if !S.Fields[i].Required {
			opt = S.Fields[i].Name
		} else {
			req = S.Fields[i].Name
		}
	}
	// prefer fields that carry a default (so "default kept" is exercised)
	for _, fl := range S.Fields {
		if fl.Type.Default != nil {
			if fl.Required {
				req = fl.Name
			} else {
				opt = fl.Name
			}
		}
	}
	// referenced objects
	var targets []string
	seenT := map[string]bool{}
	seed.walkAll(func(t *ast.Type) {
		var k string
		if t.Kind == ast.KindRef && t.Ref != nil {
			k = t.Ref.ReferredPkg + "." + t.Ref.ReferredType
		}
		if t.Kind == ast.KindConstantRef && t.ConstantReference != nil {
			k = t.ConstantReference.ReferredPkg + "." + t.ConstantReference.ReferredType
		}
		if k != "" && !seenT[k] {
			seenT[k] = true
			targets = append(targets, k)
		}
	})
	sort.Strings(targets) // deterministic, independent of traversal order
	R := S.ref()
	if len(targets) > 0 {
		R = targets[0]
	}
	rRef := parseObjRef(R)

	sref, sOther := S.ref(), pkg+"."+swapCase(S.Name)
	fld := func(o, fn string) string { return o + "." + fn }
	var ops []op
	add := func(reduced bool, o op) {
		o.Reduced = reduced
		ops = append(ops, o)
	}

	// rename_object
	for i, t := range targets {
		r := parseObjRef(t)
		add(i == 0, opRenameObject("exact", t, "Renamed"))
		add(i == 0, opRenameObject("othercase", r.Pkg+"."+swapCase(r.Name), "Renamed"))
	}
	if !seenT[sref] {
		add(len(targets) == 0, opRenameObject("exact", sref, "Renamed"))
		add(len(targets) == 0, opRenameObject("othercase", sOther, "Renamed"))
	}
	add(true, opRenameObject("absent", pkg+".Nope", "Renamed"))
	add(false, opRenameObject("otherpkg", otherPkg+"."+rRef.Name, "Renamed"))
	add(false, opRenameObject("exact-same-name", sref, S.Name))
	// the new name differs from the old one only in letter case (the classic
	// use on definitions spelled in lower case), with `from` spelled exactly,
	// in the other case, and towards a third spelling
	newcase := func(r objRef, reduced bool) {
		add(reduced, opRenameObject("exact-newcase", r.Pkg+"."+r.Name, swapCase(r.Name)))
		add(false, opRenameObject("othercase-newcase-back", r.Pkg+"."+swapCase(r.Name), r.Name))
		if up := strings.ToUpper(r.Name); up != r.Name && up != swapCase(r.Name) {
			add(false, opRenameObject("othercase-newcase-third", r.Pkg+"."+swapCase(r.Name), up))
		}
	}
	newcase(rRef, true)
	if R != sref {
		newcase(parseObjRef(sref), false)
	}

	// omit
	add(true, opOmit("exact", R))
	add(true, opOmit("othercase", rRef.Pkg+"."+swapCase(rRef.Name)))
	add(false, opOmit("absent", pkg+".Nope"))
	add(false, opOmit("otherpkg", otherPkg+"."+rRef.Name))
	add(false, opOmit("multi", sref, pkg+"."+nName))

	// omit_fields
	add(true, opOmitFields("exact", fld(sref, f)))
	add(true, opOmitFields("othercase-field", fld(sref, swapCase(f))))
	add(false, opOmitFields("othercase", fld(sOther, f)))
	add(false, opOmitFields("absent-field", fld(sref, "nope")))
	add(false, opOmitFields("absent", fld(pkg+".Nope", f)))
	add(false, opOmitFields("otherpkg", fld(otherPkg+"."+S.Name, f)))
	add(false, opOmitFields("nonstruct", fld(pkg+"."+nName, f)))
	add(true, opOmitFields("multi", fld(sref, f), fld(sref, last)))

	// add_fields: a new field, an existing one (must not be overwritten) and
	// the existing one spelled in the other letter case (a different name)
	newFields := fmt.Sprintf(`[{name: extra, type: %s, required: true, comments: [added]}, {name: %s, type: %s}]`, tString, f, tInt)
	add(true, opAddFields("exact", sref, newFields))
	add(true, opAddFields("othercase", sOther, newFields))
	add(false, opAddFields("absent", pkg+".Nope", newFields))
	add(false, opAddFields("otherpkg", otherPkg+"."+S.Name, newFields))
	add(false, opAddFields("nonstruct", pkg+"."+nName, newFields))
	add(false, opAddFields("exact-othercase-field", sref, fmt.Sprintf(`[{name: %s, type: %s}]`, swapCase(f), tRef(rRef.Pkg, rRef.Name))))

	// add_object
	add(true, opAddObject("exact", pkg+".Added", tConstStr, []string{"added object"}))
	add(true, opAddObject("exact-ref", pkg+".AddedRef", tArrayOf(tRef(rRef.Pkg, rRef.Name)), nil))
	add(false, opAddObject("exact-enum", pkg+".AddedEnum", tEnumSp, nil))
	add(false, opAddObject("absent", absentPkg+".Added", tString, nil))
	add(false, opAddObject("existing", sref, tString, nil))
	add(true, opAddObject("othercase", sOther, tString, nil))
	add(false, opAddObject("otherpkg", otherPkg+".Added", tString, []string{"added object"}))

	// duplicate_object
	add(true, opDuplicateObject("exact", sref, pkg+".Copy", nil))
	add(true, opDuplicateObject("exact-omit", sref, pkg+".CopyLess", []string{swapCase(f)}))
	if !strings.EqualFold(f, last) {
		add(false, opDuplicateObject("exact-omit-multi", sref, pkg+".CopyLess2", []string{last, swapCase(f)}))
	}
	add(false, opDuplicateObject("exact-newcase", sref, sOther, nil))
	add(true, opDuplicateObject("othercase", sOther, pkg+".Copy", nil))
	add(false, opDuplicateObject("absent", pkg+".Nope", pkg+".Copy", nil))
	add(false, opDuplicateObject("otherpkg-target", sref, otherPkg+".Copy", nil))
	add(false, opDuplicateObject("absent-target-pkg", sref, absentPkg+".Copy", nil))
	add(false, opDuplicateObject("otherpkg", otherPkg+"."+S.Name, pkg+".Copy", nil))
	add(false, opDuplicateObject("nonstruct", pkg+"."+nName, pkg+".CopyN", []string{f}))
	add(false, opDuplicateObject("existing", sref, R, nil))

	// retype_object
	add(true, opRetypeObject("exact", sref, tString, nil))
	add(true, opRetypeObject("exact-comments", sref, tArrayOf(tRef(rRef.Pkg, rRef.Name)), []string{"retyped"}))
	add(true, opRetypeObject("othercase", sOther, tString, nil))
	add(false, opRetypeObject("exact-comments-newcase", sref, tArrayOf(tRef(rRef.Pkg, rRef.Name)), []string{"RETYPED"}))
	add(false, opRetypeObject("absent", pkg+".Nope", tString, []string{"retyped"}))
	add(false, opRetypeObject("otherpkg", otherPkg+"."+S.Name, tString, nil))
	add(false, opRetypeObject("nonstruct", pkg+"."+nName, tConstStr, nil))

	// retype_field
	add(true, opRetypeField("exact", fld(sref, f), tInt, nil))
	add(true, opRetypeField("exact-comments", fld(sref, last), tArrayOf(tRef(rRef.Pkg, rRef.Name)), []string{"retyped"}))
	add(true, opRetypeField("othercase", fld(sOther, f), tInt, nil))
	add(false, opRetypeField("othercase-field", fld(sref, swapCase(f)), tInt, nil))
	add(false, opRetypeField("absent-field", fld(sref, "nope"), tInt, []string{"retyped"}))
	add(false, opRetypeField("absent", fld(pkg+".Nope", f), tInt, nil))
	add(false, opRetypeField("otherpkg", fld(otherPkg+"."+S.Name, f), tInt, nil))
	add(false, opRetypeField("nonstruct", fld(pkg+"."+nName, f), tInt, nil))

	// fields_set_required / fields_set_not_required
	for _, required := range []bool{true, false} {
		target := opt
		if !required {
			target = req
		}
		add(true, opFieldsSetRequired("exact", required, fld(sref, target)))
		add(true, opFieldsSetRequired("othercase", required, fld(sOther, swapCase(target))))
		add(false, opFieldsSetRequired("absent-field", required, fld(sref, "nope")))
		add(false, opFieldsSetRequired("absent", required, fld(pkg+".Nope", target)))
		add(false, opFieldsSetRequired("otherpkg", required, fld(otherPkg+"."+S.Name, target)))
		add(false, opFieldsSetRequired("nonstruct", required, fld(pkg+"."+nName, target)))
		add(false, opFieldsSetRequired("multi", required, fld(sref, f), fld(sref, last)))
	}

	// fields_set_default
	add(true, opFieldsSetDefault("exact", fld(sref, f), "dflt"))
	add(true, opFieldsSetDefault("othercase", fld(sOther, swapCase(f)), "dflt"))
	add(false, opFieldsSetDefault("absent-field", fld(sref, "nope"), "dflt"))
	add(false, opFieldsSetDefault("absent", fld(pkg+".Nope", f), "dflt"))
	add(false, opFieldsSetDefault("otherpkg", fld(otherPkg+"."+S.Name, f), "dflt"))
	add(false, opFieldsSetDefault("nonstruct", fld(pkg+"."+nName, f), "dflt"))
	add(false, opFieldsSetDefault("two-refs-one-field", fld(sref, last), "one", fld(sOther, last), "two"))
	add(false, opFieldsSetDefault("exact-bool", fld(sref, last), "true"))
	add(false, opFieldsSetDefault("exact-newcase", fld(sref, f), "DFLT"))
	for _, fl := range S.Fields {
		if d, ok := fl.Type.Default.(string); ok && swapCase(d) != d {
			add(false, opFieldsSetDefault("exact-newcase-current", fld(sref, fl.Name), swapCase(d)))
			break
		}
	}

	// replace_reference
	for i, t := range targets {
		r := parseObjRef(t)
		add(i == 0, opReplaceReference("exact", t, pkg+".Repl"))
		if i == 0 {
			add(true, opReplaceReference("othercase", r.Pkg+"."+swapCase(r.Name), pkg+".Repl"))
			add(false, opReplaceReference("exact-to-otherpkg", t, otherPkg+"."+S.Name))
		}
	}
	add(false, opReplaceReference("exact-newcase", R, rRef.Pkg+"."+swapCase(rRef.Name)))
	add(false, opReplaceReference("absent", pkg+".Nope", pkg+".Repl"))
	add(false, opReplaceReference("otherpkg", otherPkg+"."+rRef.Name, pkg+".Repl"))

	// constant_to_enum
	cName, eName := "NoConst", "NoEnum"
	if C != nil {
		cName = C.Name
	}
	if E != nil {
		eName = E.Name
	}
	add(true, opConstantToEnum("exact", pkg+"."+cName))
	add(true, opConstantToEnum("othercase", pkg+"."+swapCase(cName)))
	add(false, opConstantToEnum("absent", pkg+".Nope"))
	add(false, opConstantToEnum("otherpkg", otherPkg+"."+cName))
	add(false, opConstantToEnum("nonconstant", sref))
	add(false, opConstantToEnum("multi", pkg+"."+cName, pkg+"."+eName, pkg+".Added"))

	// trim_enum_values
	add(true, opTrimEnumValues())

	// hint_object
	hints := `{h0: replaced, hx: true}`
	add(true, opHintObject("exact", sref, hints))
	add(true, opHintObject("othercase", sOther, hints))
	add(false, opHintObject("absent", pkg+".Nope", hints))
	add(false, opHintObject("otherpkg", otherPkg+"."+S.Name, hints))
	add(false, opHintObject("nonstruct", pkg+"."+nName, `{hx: [a, b]}`))
	add(false, opHintObject("exact-newcase", sref, `{h0: REPLACED, HX: true}`))

	// schema_set_identifier
	add(true, opSchemaSetIdentifier("exact", pkg, "Ident"))
	add(false, opSchemaSetIdentifier("absent", absentPkg, "Ident"))
	add(false, opSchemaSetIdentifier("otherpkg", otherPkg, "Other"))
	add(true, opSchemaSetIdentifier("othercase", swapCase(pkg), "Ident"))
	add(false, opSchemaSetIdentifier("exact-newcase", pkg, "iDENT"))
	if id := seed.pkg(pkg).Metadata.Identifier; id != "" {
		add(false, opSchemaSetIdentifier("exact-newcase-current", pkg, swapCase(id)))
	}

	// schema_set_entry_point
	add(true, opSchemaSetEntryPoint("exact", pkg, S.Name))
	add(false, opSchemaSetEntryPoint("exact-absent-object", pkg, "Nope"))
	add(false, opSchemaSetEntryPoint("absent", absentPkg, S.Name))
	add(false, opSchemaSetEntryPoint("otherpkg", otherPkg, S.Name))
	add(false, opSchemaSetEntryPoint("exact-newcase", pkg, swapCase(S.Name)))
	if ep := seed.pkg(pkg).EntryPoint; ep != "" && ep != S.Name {
		add(false, opSchemaSetEntryPoint("exact-newcase-current", pkg, swapCase(ep)))
	}

	// list-valued parameters naming several targets at once
	for _, o := range listOps(objs) {
		add(false, o)
	}

	// library passes
	add(true, opPrefix("all", "Pre"))
	add(false, opPrefix("empty", ""))
	add(true, opAppendComment("note"))
	add(false, opAppendComment("NOTE"))
	add(false, opPrefix("all-newcase", "pRE"))

	// drop duplicates (a seed may make two variants coincide)
	seen := map[string]bool{}
	var out []op
	for _, o := range ops {
		if seen[o.Name] {
			continue
		}
		seen[o.Name] = true
		out = append(out, o)
	}
	return out
}

// listOps: the list-valued parameters (omit.objects, constant_to_enum.objects,
// omit_fields.fields, fields_set_required/not_required.fields,
// fields_set_default.defaults, duplicate_object.omit_fields) with SEVERAL
// references in one transformation, chosen so that any two of them agree on
// part of their spelling -- the shapes an index keyed too coarsely (by bare
// object name, by package, by field name, ...) or a loop that stops at the
// first hit would conflate:
//
//	K1  one object name (up to case) in two packages      a.N, b.N
//	K1x the same in three packages                        a.N, b.N, c.N
//	K3  two names of one package differing only in case   p.N, p.n
//	K4  two unrelated objects of two packages             a.N, b.M
//	F1  one object.field spelling in two packages         a.N.f, b.N.f
//	F2  one field name in two objects of one package      p.N.f, p.M.f
//	F4  unrelated fields of two objects of one package    p.N.f, p.M.g
//
// each in both orders, with an absent reference listed first, and with the
// first reference spelled in the other letter case. (Two objects of one
// package and two fields of one object are the older "multi" operations.)
func listOps(objs []objInfo) []op {
	fold := strings.EqualFold
	commonField := func(a, b objInfo) (string, string, bool) {
		for _, fa := range a.Fields {
			for _, fb := range b.Fields {
				if fold(fa.Name, fb.Name) {
					return fa.Name, fb.Name, true
				}
			}
		}
		return "", "", false
	}
	type pair struct{ a, b string }
	var k1, k1const, k3, k3const, k4, f1, f2, f4 *pair
	var k1x, k1xConst []string
	triple := func(i, j int) []string { // a.N, b.N and the same name in a third package, if any
		a, b := objs[i], objs[j]
		t := []string{a.ref(), b.ref()}
		for _, c := range objs[j+1:] {
			if c.Pkg != a.Pkg && c.Pkg != b.Pkg && fold(c.Name, a.Name) && c.StrConst == a.StrConst && len(t) == 2 {
				t = append(t, c.ref())
			}
		}
		return t
	}
	for i := range objs {
		for j := i + 1; j < len(objs); j++ {
			a, b := objs[i], objs[j]
			samePkg, sameName := a.Pkg == b.Pkg, fold(a.Name, b.Name)
			switch {
			case !samePkg && sameName:
				if k1 == nil {
					k1 = &pair{a.ref(), b.ref()}
					k1x = triple(i, j)
				}
				if k1const == nil && a.StrConst && b.StrConst {
					k1const = &pair{a.ref(), b.ref()}
					k1xConst = triple(i, j)
				}
				if fa, fb, ok := commonField(a, b); ok && f1 == nil && a.Struct && b.Struct {
					f1 = &pair{a.ref() + "." + fa, b.ref() + "." + fb}
				}
			case samePkg && sameName && a.Name != b.Name:
				if k3 == nil {
					k3 = &pair{a.ref(), b.ref()}
				}
				if k3const == nil && (a.StrConst || b.StrConst) {
					k3const = &pair{a.ref(), b.ref()}
				}
			case !samePkg && !sameName:
				if k4 == nil {
					k4 = &pair{a.ref(), b.ref()}
				}
			case samePkg && !sameName && a.Struct && b.Struct && len(a.Fields) > 0 && len(b.Fields) > 0:
				if fa, fb, ok := commonField(a, b); ok && f2 == nil {
					f2 = &pair{a.ref() + "." + fa, b.ref() + "." + fb}
				}
				fa, fb := a.Fields[0].Name, b.Fields[len(b.Fields)-1].Name
				if f4 == nil && !fold(fa, fb) {
					f4 = &pair{a.ref() + "." + fa, b.ref() + "." + fb}
				}
			}
		}
	}
	if k1const == nil {
		k1const, k1xConst = k1, k1x
	}
	if k3const == nil {
		k3const = k3
	}
	swapLast := func(ref string) string { // other letter case of the object name (object refs) / of object and field (field refs)
		parts := strings.Split(ref, ".")
		for i := 1; i < len(parts); i++ {
			parts[i] = swapCase(parts[i])
		}
		return strings.Join(parts, ".")
	}
	var out []op
	// lists yields the reference lists derived from one pair
	lists := func(p *pair, full bool, absent string) [][]string {
		if p == nil {
			return nil
		}
		l := [][]string{{p.a, p.b}, {p.b, p.a}}
		if full {
			l = append(l, []string{absent, p.a, p.b}, []string{swapLast(p.a), p.b})
		}
		return l
	}
	objLists := func(kind string, p *pair, full bool, mk func(variant string, refs ...string) op) {
		for i, l := range lists(p, full, "nopkg.Nope") {
			out = append(out, mk(fmt.Sprintf("multi-%s-%d", kind, i), l...))
		}
	}
	fieldLists := func(kind string, p *pair, full bool, mk func(variant string, refs ...string) op) {
		for i, l := range lists(p, full, "nopkg.Nope.nope") {
			out = append(out, mk(fmt.Sprintf("multi-%s-%d", kind, i), l...))
		}
	}
	objLists("samename2pkg", k1, true, opOmit)
	objLists("casetwins", k3, false, opOmit)
	objLists("2pkg", k4, false, opOmit)
	objLists("samename2pkg", k1const, true, opConstantToEnum)
	objLists("casetwins", k3const, false, opConstantToEnum)
	if len(k1x) == 3 {
		out = append(out, opOmit("multi-samename3pkg-0", k1x...), opOmit("multi-samename3pkg-1", k1x[2], k1x[1], k1x[0]))
	}
	if len(k1xConst) == 3 {
		out = append(out, opConstantToEnum("multi-samename3pkg-0", k1xConst...), opConstantToEnum("multi-samename3pkg-1", k1xConst[2], k1xConst[1], k1xConst[0]))
	}
	fieldLists("samefield2pkg", f1, true, opOmitFields)
	fieldLists("samefield2obj", f2, true, opOmitFields)
	fieldLists("2obj", f4, false, opOmitFields)
	for _, required := range []bool{true, false} {
		required := required
		mk := func(variant string, refs ...string) op { return opFieldsSetRequired(variant, required, refs...) }
		fieldLists("samefield2pkg", f1, false, mk)
		fieldLists("samefield2obj", f2, false, mk)
	}
	mkDefault := func(variant string, refs ...string) op {
		var kv []string
		for i, r := range refs {
			kv = append(kv, r, fmt.Sprintf("v%d", i))
		}
		return opFieldsSetDefault(variant, kv...)
	}
	for i, l := range lists(f1, true, "nopkg.Nope.nope") {
		if i != 1 { // a YAML mapping has no order: the reversed list is the same configuration
			out = append(out, mkDefault(fmt.Sprintf("multi-samefield2pkg-%d", i), l...))
		}
	}
	for i, l := range lists(f2, true, "nopkg.Nope.nope") {
		if i != 1 {
			out = append(out, mkDefault(fmt.Sprintf("multi-samefield2obj-%d", i), l...))
		}
	}
	return out
}
