//go:build verif

package main

import (
	"reflect"
	"strings"

	"github.com/grafana/cog/internal/ast"
	"github.com/grafana/cog/verifx/refl"
)

// The reference models work on a plain, ordered rendering of the IR: a list of
// packages, each with its metadata, entry point and an ordered list of
// (map key, object) pairs. The same rendering is produced from cog's result,
// so the comparison covers object order, the key each object is filed under,
// names, self references, comments, types (with nullability, defaults, hints,
// required flags, field order) and the per-package metadata and entry point.

type mObj struct {
	Key string
	O   ast.Object
}

type mSchema struct {
	Package        string
	Metadata       ast.SchemaMeta
	EntryPoint     string
	EntryPointType ast.Type
	Objects        []mObj
}

type mState []*mSchema

// fromAST renders schemas (nothing is shared with the argument).
func fromAST(schemas ast.Schemas) mState {
	cp := ast.Schemas(schemas).DeepCopy()
	var out mState
	for _, s := range cp {
		if s == nil {
			out = append(out, nil)
			continue
		}
		ms := &mSchema{Package: s.Package, Metadata: s.Metadata, EntryPoint: s.EntryPoint, EntryPointType: s.EntryPointType}
		if s.Objects != nil {
			s.Objects.Iterate(func(k string, o ast.Object) {
				ms.Objects = append(ms.Objects, mObj{Key: k, O: o})
			})
		}
		out = append(out, ms)
	}
	return out
}

func (s mState) clone() mState {
	var out mState
	for _, p := range s {
		if p == nil {
			out = append(out, nil)
			continue
		}
		q := &mSchema{Package: p.Package, Metadata: p.Metadata, EntryPoint: p.EntryPoint, EntryPointType: p.EntryPointType.DeepCopy()}
		for _, o := range p.Objects {
			q.Objects = append(q.Objects, mObj{Key: o.Key, O: o.O.DeepCopy()})
		}
		out = append(out, q)
	}
	return out
}

func (s mState) pkg(name string) *mSchema {
	for _, p := range s {
		if p != nil && p.Package == name {
			return p
		}
	}
	return nil
}

func (p *mSchema) index(name string) int {
	for i, o := range p.Objects {
		if o.O.Name == name {
			return i
		}
	}
	return -1
}

// loaded reports whether pkg.name is an object of the state (exact name: this
// is how a reference resolves).
func (s mState) loaded(pkg, name string) bool {
	p := s.pkg(pkg)
	return p != nil && p.index(name) >= 0
}

// walkType calls f on t and on every type nested in it (array elements, map
// index and value types, struct field types, disjunction and intersection
// branches, enum member types), parents first.
func walkType(t *ast.Type, f func(*ast.Type)) {
	f(t)
	switch {
	case t.Array != nil:
		walkType(&t.Array.ValueType, f)
	case t.Map != nil:
		walkType(&t.Map.IndexType, f)
		walkType(&t.Map.ValueType, f)
	case t.Struct != nil:
		for i := range t.Struct.Fields {
			walkType(&t.Struct.Fields[i].Type, f)
		}
	case t.Disjunction != nil:
		for i := range t.Disjunction.Branches {
			walkType(&t.Disjunction.Branches[i], f)
		}
	case t.Intersection != nil:
		for i := range t.Intersection.Branches {
			walkType(&t.Intersection.Branches[i], f)
		}
	case t.Enum != nil:
		for i := range t.Enum.Values {
			walkType(&t.Enum.Values[i].Type, f)
		}
	}
}

// walkAll visits the entry point type and every object type of every package.
func (s mState) walkAll(f func(*ast.Type)) {
	for _, p := range s {
		if p == nil {
			continue
		}
		walkType(&p.EntryPointType, f)
		for i := range p.Objects {
			walkType(&p.Objects[i].O.Type, f)
		}
	}
}

// ---- normalisation before comparing (leniences of DESIGN §C15) ----

type normOpts struct {
	// keepTrails: leave PassesTrail in place (frame comparison of untouched objects)
	keepTrails bool
	// blankEnumNames: PrefixObjectNames may prefix enum member names (not judged)
	blankEnumNames bool
	// blankHintBranches: references kept *inside hint values* are not judged
	// for the name-changing transformations (only the mapping is, per A.1)
	blankHintBranches bool
}

// zeroNamed sets every struct field called name to its zero value, anywhere in
// the value graph (including structs stored in interface values and maps).
func zeroNamed(v reflect.Value, names map[string]bool) {
	switch v.Kind() {
	case reflect.Ptr:
		if !v.IsNil() {
			zeroNamed(v.Elem(), names)
		}
	case reflect.Interface:
		if v.IsNil() || !v.CanSet() {
			return
		}
		e := v.Elem()
		switch e.Kind() {
		case reflect.Struct, reflect.Slice, reflect.Map, reflect.Ptr:
			cp := reflect.New(e.Type()).Elem()
			cp.Set(e)
			zeroNamed(cp, names)
			v.Set(cp)
		}
	case reflect.Struct:
		for i := 0; i < v.NumField(); i++ {
			f := v.Field(i)
			if !f.CanSet() {
				continue
			}
			if names[v.Type().Field(i).Name] {
				f.Set(reflect.Zero(f.Type()))
				continue
			}
			zeroNamed(f, names)
		}
	case reflect.Slice, reflect.Array:
		for i := 0; i < v.Len(); i++ {
			zeroNamed(v.Index(i), names)
		}
	case reflect.Map:
		for _, k := range v.MapKeys() {
			e := v.MapIndex(k)
			switch e.Kind() {
			case reflect.Struct, reflect.Interface, reflect.Slice, reflect.Map, reflect.Ptr:
				cp := reflect.New(e.Type()).Elem()
				cp.Set(e)
				zeroNamed(cp, names)
				v.SetMapIndex(k, cp)
			}
		}
	}
}

// normalise returns a copy of s with the lenient positions blanked.
func normalise(s mState, o normOpts) mState {
	c := s.clone()
	if !o.keepTrails {
		zeroNamed(reflect.ValueOf(&c).Elem(), map[string]bool{"PassesTrail": true})
	}
	if o.blankEnumNames || o.blankHintBranches {
		c.walkAll(func(t *ast.Type) {
			if o.blankEnumNames && t.Enum != nil {
				for i := range t.Enum.Values {
					t.Enum.Values[i].Name = ""
				}
			}
			if o.blankHintBranches {
				for k, v := range t.Hints {
					if d, ok := v.(ast.DisjunctionType); ok {
						d.Branches = nil
						t.Hints[k] = d
					}
				}
			}
		})
	}
	return c
}

func canonState(s mState) string { return refl.Canon(s) }
func canonObj(o mObj) string     { return refl.Canon(o) }

func swapCase(s string) string {
	var b strings.Builder
	for _, r := range s {
		switch {
		case r >= 'a' && r <= 'z':
			b.WriteRune(r - 'a' + 'A')
		case r >= 'A' && r <= 'Z':
			b.WriteRune(r - 'A' + 'a')
		default:
			b.WriteRune(r)
		}
	}
	return b.String()
}
