//go:build verif

package main

// Reference models of the schema transformations: one small function each,
// transcribed from DESIGN.md Appendix A.1, docs/reference/schema_transformations.md
// and the statement of C15 -- NOT from internal/ast/compiler.
//
// Matching (property anchors): an object reference pkg.Name matches an object
// iff the package is equal and the names are equal ignoring case; a field
// reference pkg.Name.field additionally compares the field name ignoring case.
// A *reference in the IR* resolves to an object by exact package and name.
//
// Every model receives a private copy of the pre-state and returns the list of
// acceptable post-states (several where the documentation leaves a choice;
// the first is the most literal reading). An empty list means "the
// documentation does not define this case" and the transition is not judged.

import (
	"strings"

	"github.com/grafana/cog/internal/ast"
)

type alt struct {
	S   mState
	Err bool // the documented outcome is an error
}

// mctx collects what the model says about the step besides the post-state:
// whether any target matched, and which objects changed their name (new
// "pkg.key" -> old key) so that differences can be located.
type mctx struct {
	matched bool
	inexact bool // some match relied on case folding
	renames map[string]string
}

func (c *mctx) renamed(pkg, newKey, oldKey string) {
	if c.renames == nil {
		c.renames = map[string]string{}
	}
	c.renames[pkg+"."+newKey] = oldKey
}

// touched marks an object / a field as a target of the transformation even
// when its content stays the same (e.g. fields_set_required on a field that
// is already required): PassesTrail may grow there. The marker lives in the
// trail, so it disappears from the content comparison (trails are stripped)
// and makes the object differ from the pre-state in the frame comparison.
const touchMark = "\x00touched-by-model"

func touchObj(o *mObj)              { o.O.PassesTrail = append(o.O.PassesTrail, touchMark) }
func touchField(f *ast.StructField) { f.PassesTrail = append(f.PassesTrail, touchMark) }

type objRef struct{ Pkg, Name string }
type fieldRef struct{ Pkg, Obj, Field string }

func parseObjRef(s string) objRef {
	p := strings.Split(s, ".")
	if len(p) != 2 {
		panic("c15: bad object reference " + s)
	}
	return objRef{p[0], p[1]}
}

func parseFieldRef(s string) fieldRef {
	p := strings.Split(s, ".")
	if len(p) != 3 {
		panic("c15: bad field reference " + s)
	}
	return fieldRef{p[0], p[1], p[2]}
}

// matches: the anchored matching rule. c only records whether some match
// relied on case folding (used to label failure kinds, not to decide anything).
func (r objRef) matches(c *mctx, p *mSchema, o *mObj) bool {
	ok := p.Package == r.Pkg && strings.EqualFold(o.O.Name, r.Name)
	if ok && o.O.Name != r.Name {
		c.inexact = true
	}
	return ok
}

func (r fieldRef) matches(c *mctx, p *mSchema, o *mObj, f *ast.StructField) bool {
	ok := p.Package == r.Pkg && strings.EqualFold(o.O.Name, r.Obj) && strings.EqualFold(f.Name, r.Field)
	if ok && (o.O.Name != r.Obj || f.Name != r.Field) {
		c.inexact = true
	}
	return ok
}

func one(s mState) []alt { return []alt{{S: s}} }

// eachObject calls f for every object of every package.
func (s mState) eachObject(f func(p *mSchema, o *mObj)) {
	for _, p := range s {
		if p == nil {
			continue
		}
		for i := range p.Objects {
			f(p, &p.Objects[i])
		}
	}
}

// eachField calls f for every top-level field of every struct object.
func (s mState) eachField(f func(p *mSchema, o *mObj, fld *ast.StructField)) {
	s.eachObject(func(p *mSchema, o *mObj) {
		if o.O.Type.Kind != ast.KindStruct || o.O.Type.Struct == nil {
			return
		}
		for i := range o.O.Type.Struct.Fields {
			f(p, o, &o.O.Type.Struct.Fields[i])
		}
	})
}

// rename_object {from,to}: the object's Name and SelfRef.ReferredType become
// `to`, it keeps its position; every reference that resolved to it (refs,
// constant refs, discriminator mappings incl. those kept in hints, entry
// point, map index types) now names `to`. No match: identity.
func modelRenameObject(c *mctx, s mState, from objRef, to string) []alt {
	pre := s.clone()
	out, stale := modelRenameObject1(c, s, from, to, false)
	if stale && len(out) > 0 {
		c2 := *c
		more, _ := modelRenameObject1(&c2, pre, from, to, true)
		out = append(out, more...)
	}
	return out
}

func modelRenameObject1(c *mctx, s mState, from objRef, to string, renameStale bool) ([]alt, bool) {
	var hitP *mSchema
	var hit *mObj
	n := 0
	s.eachObject(func(p *mSchema, o *mObj) {
		if from.matches(c, p, o) {
			n++
			hitP, hit = p, o
		}
	})
	if n == 0 {
		return one(s), false
	}
	c.matched = true
	if n > 1 {
		// lenient: two objects (names differing in case) would both be
		// renamed to one name; the documentation does not define the outcome.
		return nil, false
	}
	old := hit.O.Name
	if old != to && hitP.index(to) >= 0 {
		return nil, false // lenient: the new name is taken; outcome undefined
	}
	c.renamed(hitP.Package, to, hit.Key)
	hit.O.Name, hit.O.SelfRef.ReferredType, hit.Key = to, to, to
	touchObj(hit)
	if old == to {
		return one(s), false
	}
	pkg := hitP.Package
	if hitP.EntryPoint == old {
		hitP.EntryPoint = to
	}
	// A mapping entry naming the old object is a reference to it. When no
	// branch of the union refers to the object any more (a stale mapping left
	// by replace_reference) the statement does not say whether the entry
	// follows the rename: both outcomes are accepted (see staleAlt below).
	staleSeen := false
	fixMapping := func(d *ast.DisjunctionType) {
		points := false
		for _, b := range d.Branches {
			if b.Kind == ast.KindRef && b.Ref != nil && b.Ref.ReferredPkg == pkg && b.Ref.ReferredType == old {
				points = true
			}
		}
		if !points {
			for _, v := range d.DiscriminatorMapping {
				if v == old {
					staleSeen = true
				}
			}
			if !renameStale {
				return
			}
		}
		for k, v := range d.DiscriminatorMapping {
			if v == old {
				d.DiscriminatorMapping[k] = to
			}
		}
	}
	s.walkAll(func(t *ast.Type) {
		if t.Disjunction != nil {
			fixMapping(t.Disjunction) // before the branches are visited
		}
		for k, v := range t.Hints {
			if d, ok := v.(ast.DisjunctionType); ok {
				fixMapping(&d)
				t.Hints[k] = d
			}
		}
		if t.Kind == ast.KindRef && t.Ref != nil && t.Ref.ReferredPkg == pkg && t.Ref.ReferredType == old {
			t.Ref.ReferredType = to
		}
		if t.Kind == ast.KindConstantRef && t.ConstantReference != nil && t.ConstantReference.ReferredPkg == pkg && t.ConstantReference.ReferredType == old {
			t.ConstantReference.ReferredType = to
		}
	})
	return one(s), staleSeen
}

// omit {objects}: the matched objects are removed; the relative order of the
// rest is kept; references to them are not rewritten.
func modelOmit(c *mctx, s mState, refs []objRef) []alt {
	for _, p := range s {
		var keep []mObj
		for i := range p.Objects {
			drop := false
			for _, r := range refs {
				if r.matches(c, p, &p.Objects[i]) {
					drop = true
				}
			}
			if !drop {
				keep = append(keep, p.Objects[i])
			} else {
				c.matched = true
			}
		}
		p.Objects = keep
	}
	return one(s)
}

// omit_fields {fields}: the matched fields are removed from their struct
// object; non-struct objects untouched.
func modelOmitFields(c *mctx, s mState, refs []fieldRef) []alt {
	s.eachObject(func(p *mSchema, o *mObj) {
		if o.O.Type.Kind != ast.KindStruct || o.O.Type.Struct == nil {
			return
		}
		var keep []ast.StructField
		for i := range o.O.Type.Struct.Fields {
			f := &o.O.Type.Struct.Fields[i]
			drop := false
			for _, r := range refs {
				if r.matches(c, p, o, f) {
					drop = true
				}
			}
			if !drop {
				keep = append(keep, *f)
			} else {
				c.matched = true
				touchObj(o)
			}
		}
		o.O.Type.Struct.Fields = keep
	})
	return one(s)
}

// add_fields {to,fields}: each given field whose name is not already present
// (exact match: "existing fields will not be overwritten") is appended in the
// given order; error if the target is not a struct.
func modelAddFields(c *mctx, s mState, to objRef, fields []ast.StructField) []alt {
	isErr := false
	s.eachObject(func(p *mSchema, o *mObj) {
		if !to.matches(c, p, o) {
			return
		}
		c.matched = true
		touchObj(o)
		if o.O.Type.Kind != ast.KindStruct || o.O.Type.Struct == nil {
			isErr = true
			return
		}
		for _, f := range fields {
			present := false
			for _, e := range o.O.Type.Struct.Fields {
				if e.Name == f.Name {
					present = true
				}
			}
			if !present {
				o.O.Type.Struct.Fields = append(o.O.Type.Struct.Fields, f.DeepCopy())
			}
		}
	})
	if isErr {
		return []alt{{Err: true}}
	}
	return one(s)
}

// placeNew files a new object under pkg. The documentation only covers a
// fresh name ("appended"); when the exact name is already taken three outcomes
// are accepted: replaced in place, removed and appended, or left alone.
func placeNew(s mState, pkg string, obj ast.Object) []alt {
	p := s.pkg(pkg)
	i := p.index(obj.Name)
	if i < 0 {
		p.Objects = append(p.Objects, mObj{Key: obj.Name, O: obj})
		return one(s)
	}
	a, b, c := s, s.clone(), s.clone()
	a.pkg(pkg).Objects[i] = mObj{Key: obj.Name, O: obj.DeepCopy()}
	touchObj(&a.pkg(pkg).Objects[i])
	pb := b.pkg(pkg)
	pb.Objects = append(append(append([]mObj{}, pb.Objects[:i]...), pb.Objects[i+1:]...), mObj{Key: obj.Name, O: obj.DeepCopy()})
	return []alt{{S: a}, {S: b}, {S: c}}
}

// add_object {object,as,comments}: a new object pkg.Name with type `as` and
// the comments is appended to package pkg. Package absent: identity.
func modelAddObject(c *mctx, s mState, ref objRef, as ast.Type, comments []string) []alt {
	if s.pkg(ref.Pkg) == nil {
		return one(s)
	}
	c.matched = true
	obj := ast.Object{Name: ref.Name, Comments: append([]string(nil), comments...), Type: as.DeepCopy(), SelfRef: ast.RefType{ReferredPkg: ref.Pkg, ReferredType: ref.Name}}
	return placeNew(s, ref.Pkg, obj)
}

// duplicate_object {object,as,omit_fields}: a deep copy of the source under
// the new package/name (SelfRef retargeted), minus the omitted fields
// (case-insensitive), appended to the target package; source untouched.
// Source or target package absent: identity ("if the source object isn't
// found, this pass does nothing").
func modelDuplicateObject(c *mctx, s mState, src, as objRef, omit []string) []alt {
	if s.pkg(as.Pkg) == nil {
		return one(s)
	}
	var exact *mObj
	var folded []int // indexes (in package src.Pkg) of case-insensitive matches
	if p := s.pkg(src.Pkg); p != nil {
		for i := range p.Objects {
			if p.Objects[i].O.Name == src.Name {
				exact = &p.Objects[i]
			} else if src.matches(c, p, &p.Objects[i]) {
				folded = append(folded, i)
			}
		}
	}
	dup := func(base mState, o mObj) []alt {
		d := o.O.DeepCopy()
		d.Name = as.Name
		d.SelfRef = ast.RefType{ReferredPkg: as.Pkg, ReferredType: as.Name}
		if d.Type.Kind == ast.KindStruct && d.Type.Struct != nil && len(omit) > 0 {
			var keep []ast.StructField
			for _, f := range d.Type.Struct.Fields {
				drop := false
				for _, n := range omit {
					if strings.EqualFold(n, f.Name) {
						drop = true
					}
				}
				if !drop {
					keep = append(keep, f)
				}
			}
			d.Type.Struct.Fields = keep
		}
		return placeNew(base, as.Pkg, d)
	}
	c.matched = exact != nil || len(folded) > 0
	if exact != nil {
		return dup(s, *exact)
	}
	// lenient: a source spelled in another letter case "isn't found" by an
	// exact lookup but matches under the anchored matching rule; both readings
	// are accepted (identity first: it is what the reference text says).
	out := one(s.clone())
	for _, i := range folded {
		base := s.clone()
		out = append(out, dup(base, base.pkg(src.Pkg).Objects[i])...)
	}
	return out
}

// retype_object {object,as,comments}: the object's type becomes `as`;
// comments replaced only when given.
func modelRetypeObject(c *mctx, s mState, ref objRef, as ast.Type, comments []string) []alt {
	s.eachObject(func(p *mSchema, o *mObj) {
		if !ref.matches(c, p, o) {
			return
		}
		c.matched = true
		touchObj(o)
		o.O.Type = as.DeepCopy()
		if comments != nil {
			o.O.Comments = append([]string(nil), comments...)
		}
	})
	return one(s)
}

// retype_field {field,as,comments}: the first matching field's type becomes
// `as`; comments replaced only when given. "First" is read per object (first
// alternative) or over the whole IR (second alternative).
func modelRetypeField(c *mctx, s mState, ref fieldRef, as ast.Type, comments []string) []alt {
	apply := func(st mState, global bool) mState {
		done := false
		var last *mObj
		st.eachField(func(p *mSchema, o *mObj, f *ast.StructField) {
			if !ref.matches(c, p, o, f) || (global && done) || (!global && last == o) {
				return
			}
			done, last = true, o
			c.matched = true
			touchField(f)
			f.Type = as.DeepCopy()
			if comments != nil {
				f.Comments = append([]string(nil), comments...)
			}
		})
		return st
	}
	a, b := apply(s.clone(), false), apply(s.clone(), true)
	if canonState(a) == canonState(b) {
		return one(a)
	}
	return []alt{{S: a}, {S: b}}
}

// fields_set_required: matched fields get Required = true, Type.Nullable =
// false; default kept. fields_set_not_required: Required = false,
// Type.Nullable = true; default kept.
func modelFieldsSetRequired(c *mctx, s mState, refs []fieldRef, required bool) []alt {
	s.eachField(func(p *mSchema, o *mObj, f *ast.StructField) {
		for _, r := range refs {
			if r.matches(c, p, o, f) {
				c.matched = true
				touchField(f)
				f.Required = required
				f.Type.Nullable = !required
			}
		}
	})
	return one(s)
}

type defaultEntry struct {
	Ref   fieldRef
	Value any
}

// fields_set_default {defaults}: matched fields get Type.Default = value. If
// two references match one field with different values either value is
// accepted (the order dependence is C03's subject).
func modelFieldsSetDefault(c *mctx, s mState, entries []defaultEntry) []alt {
	apply := func(st mState, order []defaultEntry) mState {
		st.eachField(func(p *mSchema, o *mObj, f *ast.StructField) {
			for _, e := range order {
				if e.Ref.matches(c, p, o, f) {
					c.matched = true
					touchField(f)
					f.Type.Default = e.Value
				}
			}
		})
		return st
	}
	if len(entries) <= 1 {
		return one(apply(s, entries))
	}
	// every order of application is an acceptable reading (the configuration
	// is a YAML mapping: it has no order); they only differ when two
	// references match one field with different values
	var out []alt
	seen := map[string]bool{}
	var perm func(done, rest []defaultEntry)
	perm = func(done, rest []defaultEntry) {
		if len(rest) == 0 {
			st := apply(s.clone(), done)
			if k := canonState(st); !seen[k] {
				seen[k] = true
				out = append(out, alt{S: st})
			}
			return
		}
		for i := range rest {
			r := append(append([]defaultEntry{}, rest[:i]...), rest[i+1:]...)
			perm(append(append([]defaultEntry{}, done...), rest[i]), r)
		}
	}
	if len(entries) > 4 {
		panic("c15: fields_set_default model supports at most four entries")
	}
	perm(nil, entries)
	return out
}

// replace_reference {from,to}: every `ref` whose target matches `from` points
// to `to`; nullability, default and hints of the referring position kept.
// Whether the entry point type (a ref kept beside the entry point's *name*)
// is one of "every ref" is left open: both are accepted.
func modelReplaceReference(c *mctx, s mState, from, to objRef) []alt {
	hits := 0
	repl := func(t *ast.Type) {
		if t.Kind == ast.KindRef && t.Ref != nil && t.Ref.ReferredPkg == from.Pkg && strings.EqualFold(t.Ref.ReferredType, from.Name) {
			c.matched = true
			hits++
			if t.Ref.ReferredType != from.Name {
				c.inexact = true
			}
			t.Ref.ReferredPkg, t.Ref.ReferredType = to.Pkg, to.Name
		}
	}
	// a matched reference is a target even when `to` spells what it already
	// says (its trail may grow): the object and the field holding it are marked
	objects := func(st mState) {
		st.eachObject(func(_ *mSchema, o *mObj) {
			before := hits
			if o.O.Type.Kind == ast.KindStruct && o.O.Type.Struct != nil {
				for i := range o.O.Type.Struct.Fields {
					fb := hits
					walkType(&o.O.Type.Struct.Fields[i].Type, repl)
					if hits > fb {
						touchField(&o.O.Type.Struct.Fields[i])
					}
				}
			} else {
				walkType(&o.O.Type, repl)
			}
			if hits > before {
				touchObj(o)
			}
		})
	}
	a := s.clone()
	objects(a)
	for _, p := range a {
		before := hits
		walkType(&p.EntryPointType, repl)
		if hits > before {
			p.EntryPointType.PassesTrail = append(p.EntryPointType.PassesTrail, touchMark)
		}
	}
	b := s.clone()
	objects(b)
	if canonState(a) == canonState(b) {
		return one(a)
	}
	return []alt{{S: a}, {S: b}}
}

// constant_to_enum {objects}: matched objects that are concrete `string`
// scalars become a one-member enum (name = value); other matched objects
// untouched. Whether nullability/default/hints of the replaced type survive
// is not documented: both are accepted.
func modelConstantToEnum(c *mctx, s mState, refs []objRef) []alt {
	apply := func(st mState, keep bool) mState {
		st.eachObject(func(p *mSchema, o *mObj) {
			hit := false
			for _, r := range refs {
				if r.matches(c, p, o) {
					hit = true
				}
			}
			t := o.O.Type
			if !hit || t.Kind != ast.KindScalar || t.Scalar == nil || t.Scalar.ScalarKind != ast.KindString || t.Scalar.Value == nil {
				return
			}
			v, ok := t.Scalar.Value.(string)
			if !ok {
				return
			}
			n := ast.Type{Kind: ast.KindEnum, Enum: &ast.EnumType{Values: []ast.EnumValue{{Type: ast.String(), Name: v, Value: v}}}}
			if keep {
				n.Nullable, n.Default, n.Hints = t.Nullable, t.Default, t.Hints
			}
			c.matched = true
			touchObj(o)
			o.O.Type = n
		})
		return st
	}
	a, b := apply(s.clone(), true), apply(s.clone(), false)
	if canonState(a) == canonState(b) {
		return one(a)
	}
	return []alt{{S: a}, {S: b}}
}

// trim_enum_values: every string enum value loses leading/trailing spaces;
// member names untouched.
func modelTrimEnumValues(c *mctx, s mState) []alt {
	s.walkAll(func(t *ast.Type) {
		if t.Kind != ast.KindEnum || t.Enum == nil {
			return
		}
		for i, v := range t.Enum.Values {
			if str, ok := v.Value.(string); ok {
				if strings.Trim(str, " ") != str {
					c.matched = true
				}
				t.Enum.Values[i].Value = strings.Trim(str, " ")
			}
		}
	})
	return one(s)
}

// hint_object {object,hints}: the given hints are set on the object's type
// (existing other hints kept).
func modelHintObject(c *mctx, s mState, ref objRef, hints map[string]any) []alt {
	s.eachObject(func(p *mSchema, o *mObj) {
		if !ref.matches(c, p, o) {
			return
		}
		c.matched = true
		touchObj(o)
		if o.O.Type.Hints == nil {
			o.O.Type.Hints = ast.JenniesHints{}
		}
		for k, v := range hints {
			o.O.Type.Hints[k] = v
		}
	})
	return one(s)
}

// schema_set_identifier {package,identifier}: Metadata.Identifier of that package.
func modelSchemaSetIdentifier(c *mctx, s mState, pkg, id string) []alt {
	for _, p := range s {
		if p.Package == pkg {
			c.matched = true
			p.Metadata.Identifier = id
		}
	}
	return one(s)
}

// schema_set_entry_point {package,entry_point}: EntryPoint and EntryPointType
// (a ref to it) of that package.
func modelSchemaSetEntryPoint(c *mctx, s mState, pkg, ep string) []alt {
	for _, p := range s {
		if p.Package == pkg {
			c.matched = true
			p.EntryPoint = ep
			p.EntryPointType = ast.Type{Kind: ast.KindRef, Ref: &ast.RefType{ReferredPkg: pkg, ReferredType: ep}}
		}
	}
	return one(s)
}

// PrefixObjectNames(prefix): every object name, every reference to a loaded
// object, every mapping target and the entry point get the prefix; empty
// prefix: identity. References to objects that are not loaded are not covered
// by the text: prefixed or left alone are both accepted. Enum member names are
// blanked by the comparison (DESIGN §C15 lenience).
func modelPrefixObjectNames(c *mctx, s mState, prefix string) []alt {
	if prefix == "" {
		return one(s)
	}
	c.matched = true
	apply := func(pre, st mState, dangling bool) mState {
		for _, p := range st {
			if p.EntryPoint != "" {
				p.EntryPoint = prefix + p.EntryPoint
			}
			for i := range p.Objects {
				o := &p.Objects[i]
				c.renamed(p.Package, prefix+o.O.Name, o.Key)
				o.O.Name = prefix + o.O.Name
				o.O.SelfRef.ReferredType = o.O.Name
				o.Key = o.O.Name
				touchObj(o)
			}
		}
		fixMapping := func(d *ast.DisjunctionType) {
			for k, v := range d.DiscriminatorMapping {
				d.DiscriminatorMapping[k] = prefix + v
			}
		}
		st.walkAll(func(t *ast.Type) {
			if t.Disjunction != nil {
				fixMapping(t.Disjunction)
			}
			for k, v := range t.Hints {
				if d, ok := v.(ast.DisjunctionType); ok {
					fixMapping(&d)
					t.Hints[k] = d
				}
			}
			if t.Kind == ast.KindRef && t.Ref != nil && (dangling || pre.loaded(t.Ref.ReferredPkg, t.Ref.ReferredType)) {
				t.Ref.ReferredType = prefix + t.Ref.ReferredType
			}
			if t.Kind == ast.KindConstantRef && t.ConstantReference != nil && (dangling || pre.loaded(t.ConstantReference.ReferredPkg, t.ConstantReference.ReferredType)) {
				t.ConstantReference.ReferredType = prefix + t.ConstantReference.ReferredType
			}
		})
		return st
	}
	pre := s.clone()
	a, b := apply(pre, s.clone(), true), apply(pre, s.clone(), false)
	if canonState(a) == canonState(b) {
		return one(a)
	}
	return []alt{{S: a}, {S: b}}
}

// AppendCommentObjects(c): c appended to every object's comments, nothing else.
func modelAppendComment(c *mctx, s mState, comment string) []alt {
	c.matched = true
	s.eachObject(func(_ *mSchema, o *mObj) { touchObj(o); o.O.Comments = append(o.O.Comments, comment) })
	return one(s)
}
