//go:build verif

// C15: schema transformations do what is documented and nothing else
// (DESIGN.md §6 C15, Appendix A.1). Engine E1: explicit-state breadth-first
// search over sequences of transformations applied to seed IRs. Every
// transition executes cog's own passes (loaded from YAML through
// internal/yaml, run with compiler.Passes.Process) and is compared with an
// independent reference model of the transformation (model.go).
package main

import (
	"crypto/sha256"
	"encoding/json"
	"fmt"
	"os"
	"runtime"
	"sort"
	"strings"
	"sync"
	"syscall"
	"time"

	"github.com/grafana/cog/internal/ast"
	"github.com/grafana/cog/internal/ast/compiler"
	"github.com/grafana/cog/verifx/refl"
	"github.com/grafana/cog/verifx/vx"
)

// runChain executes the operations as cog does: one compiler.Passes value
// holding freshly loaded passes, one Process call on freshly built schemas
// (Process copies its input once, then hands the same IR from pass to pass).
func runChain(sd seed, ops []op) (out ast.Schemas, err error, panicked any) {
	var passes compiler.Passes
	for _, o := range ops {
		p, perr := o.pass()
		if perr != nil {
			// the YAML text is the harness's own: it must load
			vx.Fatalf("operation %s does not load: %v", o.Name, perr)
		}
		passes = append(passes, p)
	}
	in := sd.Build()
	panicked = vx.Catch(func() { out, err = passes.Process(in) })
	return out, err, panicked
}

type opStats struct {
	Transitions       int `json:"transitions"`
	Changed           int `json:"changed_something"`
	ConformingChanged int `json:"real_equals_model_and_changed"`
	Conforming        int `json:"real_equals_model"`
	Errors            int `json:"returned_error"`
	Undefined         int `json:"not_judged_undefined_by_docs"`
	Failing           int `json:"failing"`
}

type explorer struct {
	r        *vx.Run
	mu       sync.Mutex
	stats    map[string]*opStats // "T (variant)"
	perT     map[string]*opStats
	errOn    map[string]string         // "T (variant)" -> sample error text, for variants without a target
	pipe     map[string]*pipelineStats // pipeline layer, per language
	sampleAt map[int]any               // deterministic samples: some depth-1 transitions of seed "tiny"
	altsUsed map[string]int            // "T: alternative i" -> count (which lenient reading cog follows)
	deadline time.Time                 // wall-clock cap (generous: other work shares the machine)
	cpuLimit time.Duration             // budget in CPU time of this process: independent of the machine's load
	timedOut bool
}

func (e *explorer) stat(o op, f func(s *opStats)) {
	e.mu.Lock()
	defer e.mu.Unlock()
	k := o.T + " (" + o.Variant + ")"
	if e.stats[k] == nil {
		e.stats[k] = &opStats{}
	}
	if e.perT[o.T] == nil {
		e.perT[o.T] = &opStats{}
	}
	f(e.stats[k])
	f(e.perT[o.T])
}

func cpuTime() time.Duration {
	var ru syscall.Rusage
	if err := syscall.Getrusage(syscall.RUSAGE_SELF, &ru); err != nil {
		return 0
	}
	return time.Duration(ru.Utime.Nano() + ru.Stime.Nano())
}

func (e *explorer) outOfBudget() bool {
	return time.Now().After(e.deadline) || cpuTime() > e.cpuLimit
}

func names(ops []op) []string {
	out := []string{}
	for _, o := range ops {
		out = append(out, o.Name)
	}
	return out
}

func witness(sd seed, ops []op) string {
	return "seed=" + sd.Name + " ops=[" + strings.Join(names(ops), " ; ") + "]"
}

func normMsg(s string) string {
	s = strings.ReplaceAll(s, "\n", " ")
	var b strings.Builder
	for _, r := range s {
		if r >= '0' && r <= '9' {
			b.WriteByte('N')
		} else {
			b.WriteRune(r)
		}
	}
	if b.Len() > 120 {
		return b.String()[:120]
	}
	return b.String()
}

var noTarget = map[string]bool{"absent": true, "otherpkg": true, "nonstruct": true, "nonconstant": true}

// transition executes prefix+o on the seed, judges the last step against the
// model and returns the canonical form of the successor ("" if none).
// verbose prints what happens (replay).
func (e *explorer) transition(sd seed, prefix []op, pre mState, preStripped string, o op, opIdx int, verbose bool) (succ string, kinds []string) {
	seq := append(append([]op{}, prefix...), o)
	fail := func(kind, what string) {
		kinds = append(kinds, kind)
		var parents []string
		if len(seq) > 1 {
			for i := range seq {
				red := append(append([]op{}, seq[:i]...), seq[i+1:]...)
				parents = append(parents, witness(sd, red))
			}
		}
		e.r.Fail(vx.Failure{
			Kind:    kind,
			Witness: witness(sd, seq),
			Size:    len(seq)*1000000 + sd.Size*1000 + opIdx,
			Parents: parents,
			What:    fmt.Sprintf("%s on seed %q: %s", o.Name, sd.Name, what),
			Detail:  map[string]any{"seed": sd.Name, "ops": names(seq), "kind": kind},
		})
		if verbose {
			fmt.Printf("    FINDING %s\n      %s\n", kind, what)
		}
	}
	e.stat(o, func(s *opStats) { s.Transitions++ })

	var alts []alt
	ctx := &mctx{}
	if p := vx.Catch(func() { alts = o.Model(ctx, pre.clone()) }); p != nil {
		vx.Fatalf("model of %s panicked on %s: %v", o.Name, witness(sd, prefix), p)
	}
	got, err, pan := runChain(sd, seq)
	if pan != nil {
		e.stat(o, func(s *opStats) { s.Failing++ })
		fail(fmt.Sprintf("%s: panic: %s", o.T, normMsg(fmt.Sprint(pan))), fmt.Sprintf("panic: %v", pan))
		return "", kinds
	}
	if err != nil {
		// an error is an allowed result and is never judged (DESIGN §C15);
		// errors for targets that do not exist are listed in the evidence.
		e.stat(o, func(s *opStats) { s.Errors++ })
		if noTarget[coarse(o.Variant)] {
			e.mu.Lock()
			k := o.T + " (" + o.Variant + ")"
			if old, ok := e.errOn[k]; !ok || normMsg(err.Error()) < old {
				e.errOn[k] = normMsg(err.Error()) // smallest message: deterministic
			}
			e.mu.Unlock()
		}
		if verbose {
			fmt.Printf("    cog returns an error (allowed, not judged): %v\n", err)
		}
		return "", kinds
	}
	gotM := fromAST(got)
	succ = refl.Canon(got)
	if len(alts) == 0 {
		e.stat(o, func(s *opStats) { s.Undefined++ })
		if verbose {
			fmt.Println("    outcome not defined by the documentation: not judged")
		}
		return succ, kinds
	}
	allErr := true
	for _, a := range alts {
		if !a.Err {
			allErr = false
		}
	}
	if allErr {
		e.stat(o, func(s *opStats) { s.Failing++ })
		fail(fmt.Sprintf("%s: no error although the target is not a struct", o.T), "the documented outcome is an error; cog returned a result")
		return succ, kinds
	}
	findings, used := judge(o, ctx, pre, alts, gotM)
	changed := canonState(normalise(gotM, normOpts{})) != preStripped
	// the same step on a copied IR (Passes{o}.Process(pre-state)): when only
	// the chained run deviates, state left behind by an earlier pass is involved.
	if len(findings) > 0 && len(prefix) > 0 {
		if preS, perr, ppan := runChain(sd, prefix); perr == nil && ppan == nil {
			var step ast.Schemas
			var serr error
			p, _ := o.pass()
			if vx.Catch(func() { step, serr = compiler.Passes{p}.Process(preS) }) == nil && serr == nil {
				f2, _ := judge(o, ctx, pre, alts, fromAST(step))
				also := map[string]bool{}
				for _, f := range f2 {
					also[f.Kind] = true
				}
				for i := range findings {
					if !also[findings[i].Kind] {
						findings[i].Kind += " [only when chained after another pass in one Process call]"
					}
				}
			}
		}
	}
	e.stat(o, func(s *opStats) {
		if changed {
			s.Changed++
		}
		if len(findings) == 0 {
			s.Conforming++
			if changed {
				s.ConformingChanged++
			}
		} else {
			s.Failing++
		}
	})
	if len(alts) > 1 && len(findings) == 0 {
		e.mu.Lock()
		e.altsUsed[fmt.Sprintf("%s (%s): alternative %d of %d", o.T, o.Variant, used+1, len(alts))]++
		e.mu.Unlock()
	}
	for _, f := range findings {
		fail(f.Kind, f.What)
	}
	if verbose && len(findings) == 0 {
		fmt.Printf("    conforms to the model (changed something: %v)\n", changed)
	}
	if len(prefix) == 0 && sd.Name == "tiny" && opIdx%13 == 0 {
		e.mu.Lock()
		e.sampleAt[opIdx] = map[string]any{"seed": sd.Name, "ops": names(seq), "changed_something": changed, "conforms_to_model": len(findings) == 0}
		e.mu.Unlock()
	}
	return succ, kinds
}

type state struct {
	seq     []int
	reduced bool // reachable by a sequence over the reduced alphabet
}

type seedResult struct {
	states, transitions, depth int
	perDepth                   []int
	alphabet, reduced          int
	complete                   bool
}

// explore runs the BFS from one seed. Levels 1..fullDepth use the whole
// alphabet; deeper levels expand only states reachable over the reduced
// alphabet (last step: any operation).
func (e *explorer) explore(sd seed, fullDepth, maxDepth int) seedResult {
	base := fromAST(sd.Build())
	ops := alphabet(base)
	res := seedResult{alphabet: len(ops), complete: true}
	for _, o := range ops {
		if o.Reduced {
			res.reduced++
		}
	}
	seen := map[[32]byte]*state{}
	init := &state{reduced: true}
	seen[sha256.Sum256([]byte(refl.Canon(sd.Build())))] = init
	level := []*state{init}
	workers := runtime.NumCPU()
	for depth := 1; depth <= maxDepth && len(level) > 0; depth++ {
		type job struct{ si, oi int }
		type result struct {
			hash [32]byte
			ok   bool
		}
		results := make([][]result, len(level))
		type preState struct {
			once     sync.Once
			prefix   []op
			pre      mState
			stripped string
			bad      bool
		}
		pres := make([]*preState, len(level))
		var jobs []job
		for si, st := range level {
			results[si] = make([]result, len(ops))
			pres[si] = &preState{}
			for oi, o := range ops {
				// beyond fullDepth: only states reached over the reduced
				// alphabet are expanded; the last step ranges over the whole
				// alphabet, inner steps over the reduced one
				if depth > fullDepth && !(st.reduced && (o.Reduced || depth == maxDepth)) {
					continue
				}
				jobs = append(jobs, job{si, oi})
			}
		}
		ch := make(chan job, 256)
		var wg sync.WaitGroup
		var done int
		var dmu sync.Mutex
		for w := 0; w < workers; w++ {
			wg.Add(1)
			go func() {
				defer wg.Done()
				for j := range ch {
					if e.outOfBudget() {
						e.mu.Lock()
						e.timedOut = true
						e.mu.Unlock()
						continue
					}
					ps := pres[j.si]
					ps.once.Do(func() {
						for _, i := range level[j.si].seq {
							ps.prefix = append(ps.prefix, ops[i])
						}
						s, err, pan := runChain(sd, ps.prefix)
						if err != nil || pan != nil {
							ps.bad = true
							return
						}
						ps.pre = fromAST(s)
						ps.stripped = canonState(normalise(ps.pre, normOpts{}))
					})
					if ps.bad {
						continue
					}
					succ, _ := e.transition(sd, ps.prefix, ps.pre, ps.stripped, ops[j.oi], j.oi, false)
					dmu.Lock()
					done++
					dmu.Unlock()
					if succ != "" {
						results[j.si][j.oi] = result{hash: sha256.Sum256([]byte(succ)), ok: true}
					}
				}
			}()
		}
		for _, j := range jobs {
			ch <- j
		}
		close(ch)
		wg.Wait()
		res.transitions += done
		if e.timedOut {
			res.complete = false
		}
		// deterministic merge: states in order, ops in alphabet order
		var next []*state
		for si, st := range level {
			for oi := range ops {
				rr := results[si][oi]
				if !rr.ok {
					continue
				}
				red := st.reduced && ops[oi].Reduced
				if old, ok := seen[rr.hash]; ok {
					if red && !old.reduced {
						old.reduced = true
					}
					continue
				}
				ns := &state{seq: append(append([]int{}, st.seq...), oi), reduced: red}
				seen[rr.hash] = ns
				next = append(next, ns)
			}
		}
		res.depth = depth
		res.perDepth = append(res.perDepth, len(next))
		level = next
		if e.timedOut {
			break
		}
	}
	res.states = len(seen)
	return res
}

func main() {
	r := vx.Start("C15")
	// One defect fails on every seed and under many second operations; kinds
	// are fine-grained (transformation, direction, position, target class),
	// so the smallest witness per kind is what gets reported.
	r.PerKindSmallest = true
	sds := seeds()
	e := &explorer{r: r, stats: map[string]*opStats{}, perT: map[string]*opStats{}, errOn: map[string]string{}, altsUsed: map[string]int{}, sampleAt: map[int]any{}, pipe: map[string]*pipelineStats{}}
	// Budgets are counted in CPU time of this process (quick: 100 s wall on
	// 16 cores), so that a loaded machine does not cut the enumeration short;
	// the wall-clock cap only guards against a stall.
	e.cpuLimit, e.deadline = 1600*time.Second, time.Now().Add(25*time.Minute)
	if r.Thorough() {
		e.cpuLimit, e.deadline = 16*17*time.Minute, time.Now().Add(3*time.Hour)
	}

	if r.Replay != "" {
		replay(r, e, sds)
		return
	}

	fullDepth, maxDepth := 2, 2
	if r.Thorough() {
		maxDepth = 3
	}
	// VERIF_SEED only permutes the order in which seeds are explored
	order := make([]int, len(sds))
	for i := range order {
		order[i] = (i + r.Seed) % len(sds)
	}
	perSeed := map[string]any{}
	pipeTransitions := 0
	states, transitions, depth := 0, 0, 0
	minAlpha, maxAlpha, maxReduced := 1<<30, 0, 0
	exhaustive := true
	for _, i := range order {
		sd := sds[i]
		res := e.explore(sd, fullDepth, maxDepth)
		pipeDepth := 1
		if r.Thorough() {
			pipeDepth = 2
		}
		pt := e.explorePipeline(sd, pipeDepth)
		pipeTransitions += pt
		res.transitions += pt
		if e.timedOut {
			res.complete = false
		}
		states += res.states
		transitions += res.transitions
		if res.depth > depth {
			depth = res.depth
		}
		if res.alphabet < minAlpha {
			minAlpha = res.alphabet
		}
		if res.alphabet > maxAlpha {
			maxAlpha = res.alphabet
		}
		if res.reduced > maxReduced {
			maxReduced = res.reduced
		}
		if !res.complete {
			exhaustive = false
		}
		perSeed[sd.Name] = map[string]any{"alphabet": res.alphabet, "reduced_alphabet": res.reduced, "states": res.states, "transitions": res.transitions, "new_states_per_depth": res.perDepth, "size": sd.Size}
	}
	var errList []string
	for k, v := range e.errOn {
		errList = append(errList, k+": "+v)
	}
	sort.Strings(errList)
	var vacuous []string
	for k, s := range e.stats {
		if s.Changed == 0 && !noTarget[coarse(strings.TrimSuffix(k[strings.Index(k, "(")+1:], ")"))] && s.Errors < s.Transitions {
			vacuous = append(vacuous, k)
		}
	}
	sort.Strings(vacuous)
	var sampleIdx []int
	for i := range e.sampleAt {
		sampleIdx = append(sampleIdx, i)
	}
	sort.Ints(sampleIdx)
	samples := []any{}
	for _, i := range sampleIdx {
		samples = append(samples, e.sampleAt[i])
	}
	seedNames := []string{}
	for _, s := range sds {
		seedNames = append(seedNames, s.Name)
	}
	bound := fmt.Sprintf("all sequences of length <= %d over the full per-seed alphabet", fullDepth)
	if maxDepth > fullDepth {
		bound += fmt.Sprintf(" plus all sequences of length %d whose first %d operations are in the reduced alphabet (last operation: any)", maxDepth, maxDepth-1)
	}
	r.Finish(map[string]any{
		"states":                        states,
		"transitions":                   transitions,
		"traces_validated_against_impl": transitions,
		"samples":                       samples,
		"exhaustive":                    exhaustive,
		"bound":                         bound,
		"depth_reached":                 depth,
		"seeds":                         seedNames,
		"per_seed":                      perSeed,
		"alphabet_size_min":             minAlpha,
		"alphabet_size_max":             maxAlpha,
		"reduced_alphabet_size_max":     maxReduced,
		"transformations":               len(e.perT),
		"per_transformation":            e.perT,
		"per_operation_class":           e.stats,
		"operation_classes_with_a_target_that_never_changed_anything": vacuous,
		"errors_returned_for_missing_targets":                         errList,
		"lenient_alternative_followed":                                e.altsUsed,
		"pipeline_layer_transitions":                                  pipeTransitions,
		"pipeline_layer_per_language":                                 e.pipe,
		"pipeline_layer":                                              "every operation of the seed's alphabet as final pass of codegen.Pipeline.ContextForLanguage for no language and the 7 output languages (thorough: also all pairs over the reduced alphabet, for the languages whose passes change the seed); the last final pass is judged by its model applied to cog's own result of the chain without it",
		"how_run":                                                     "each operation is YAML text loaded by internal/yaml.CompilerLoader (library passes: cog.PrefixObjectsNames / cog.AppendCommentToObjects); a sequence is run as one compiler.Passes{...}.Process(seed) call, as cog does",
	}, []string{
		"states are deduplicated by refl.Canon of the ast.Schemas (PassesTrail included); a state is expanded through the first (shortest, alphabet-ordered) sequence that reaches it",
		"PassesTrail is ignored on objects/fields the model changes and must be unchanged elsewhere",
		"PrefixObjectNames: enum member names are not compared; references to objects that are not loaded may be prefixed or not",
		"references kept inside hint values are not compared for rename_object / replace_reference / PrefixObjectNames (the mapping kept in the hint is)",
		"a returned error is never judged; add_fields on a non-struct target must return one",
		"not judged (documentation silent): rename_object matching two objects or renaming onto a taken name; add_object/duplicate_object onto an existing name accepts replace-in-place, move-to-end or no change",
		"duplicate_object with a source spelled in another letter case: identity and duplication both accepted",
		"fields_set_default with two references matching one field: either value accepted",
		"constant_to_enum: nullability/default/hints of the replaced constant may be kept or dropped; replace_reference: the entry point type may be rewritten or not; retype_field: 'first matching field' per object or over the whole IR",
		"rename_object, retype_object, retype_field, hint_object, schema_set_entry_point have no reference text (N/A): modelled from DESIGN Appendix A.1",
	})
}

func replay(r *vx.Run, e *explorer, sds []seed) {
	kind, wit, detail := r.ReplayFile()
	var d struct {
		Seed string   `json:"seed"`
		Lang string   `json:"lang"`
		Ops  []string `json:"ops"`
		Kind string   `json:"kind"`
	}
	if err := json.Unmarshal(detail, &d); err != nil {
		vx.Fatalf("replay detail: %v", err)
	}
	var sd *seed
	for i := range sds {
		if sds[i].Name == d.Seed {
			sd = &sds[i]
		}
	}
	if sd == nil {
		vx.Fatalf("unknown seed %q", d.Seed)
	}
	byName := map[string]op{}
	idx := map[string]int{}
	for i, o := range alphabet(fromAST(sd.Build())) {
		byName[o.Name] = o
		idx[o.Name] = i
	}
	fmt.Println("replaying", wit)
	fmt.Println("  recorded kind:", kind)
	var prefix []op
	still := false
	for i, n := range d.Ops {
		o, ok := byName[n]
		if !ok {
			vx.Fatalf("unknown operation %q for seed %s", n, sd.Name)
		}
		var s ast.Schemas
		var err error
		var pan any
		if d.Lang != "" {
			s, err, pan = runPipeline(*sd, d.Lang, prefix)
		} else {
			s, err, pan = runChain(*sd, prefix)
		}
		if err != nil || pan != nil {
			fmt.Printf("  prefix fails: err=%v panic=%v\n", err, pan)
			break
		}
		pre := fromAST(s)
		fmt.Printf("  step %d: %s\n", i+1, n)
		var kinds []string
		if d.Lang != "" {
			kinds = e.pipelineTransition(*sd, d.Lang, prefix, pre, canonState(normalise(pre, normOpts{})), o, idx[n], true)
		} else {
			_, kinds = e.transition(*sd, prefix, pre, canonState(normalise(pre, normOpts{})), o, idx[n], true)
		}
		if i == len(d.Ops)-1 {
			for _, k := range kinds {
				if k == kind {
					still = true
				}
			}
		}
		prefix = append(prefix, o)
	}
	if still {
		fmt.Printf("VIOLATION property=C15 replay=%s\n", r.Replay)
		os.Exit(1)
	}
	fmt.Println("replay: the recorded failure does not occur on this tree")
	os.Exit(0)
}
