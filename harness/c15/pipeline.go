//go:build verif

package main

// The pipeline layer. Transformations reach the generators through
// codegen.Pipeline.ContextForLanguage, which runs the target language's own
// compiler passes and the configured FINAL passes (Transforms.FinalPasses:
// what cog.TypesFromSchema().SchemaTransformations(...) registers; documented
// as "applied *after* language-specific passes"). The documented effect of a
// transformation must therefore hold on the IR the language passes produce,
// including the objects those passes derive (named anonymous structs, structs
// made from disjunctions, named anonymous enums, ...).
//
// Oracle: B = ContextForLanguage(L, seed) without final passes is cog's own
// result of the language passes; G = ContextForLanguage(L, seed) with the final
// passes [σ..., o]. The last step o is judged exactly as in the plain layer:
// model_o(ContextForLanguage(L, seed, σ)) against G. Nothing about the language
// passes is modelled; errors and panics of the chain are not judged here
// (C04/C06), and a (seed, language) pair whose language passes are not
// reproducible from run to run is skipped (C03).

import (
	"fmt"
	"runtime"
	"sort"
	"sync"

	"github.com/grafana/codejen"
	"github.com/grafana/cog/internal/ast"
	"github.com/grafana/cog/internal/ast/compiler"
	"github.com/grafana/cog/internal/codegen"
	"github.com/grafana/cog/internal/jennies/golang"
	"github.com/grafana/cog/internal/jennies/java"
	"github.com/grafana/cog/internal/jennies/jsonschema"
	"github.com/grafana/cog/internal/jennies/openapi"
	"github.com/grafana/cog/internal/jennies/php"
	"github.com/grafana/cog/internal/jennies/python"
	"github.com/grafana/cog/internal/jennies/typescript"
	"github.com/grafana/cog/internal/languages"
	"github.com/grafana/cog/verifx/refl"
	"github.com/grafana/cog/verifx/vx"
)

// pipelineLangs: no language (what `cog inspect` does) and the seven outputs,
// built like Pipeline.OutputLanguages does (New(Config{})).
var pipelineLangs = []string{"none", "go", "java", "jsonschema", "openapi", "php", "python", "typescript"}

type noLanguage struct{}

func (noLanguage) Name() string                                                     { return "none" }
func (noLanguage) Jennies(_ languages.Config) *codejen.JennyList[languages.Context] { return nil }
func (noLanguage) CompilerPasses() compiler.Passes                                  { return nil }

func newLanguage(name string) languages.Language {
	switch name {
	case "none":
		return noLanguage{}
	case "go":
		return golang.New(golang.Config{})
	case "java":
		return java.New(java.Config{})
	case "jsonschema":
		return jsonschema.New(jsonschema.Config{})
	case "openapi":
		return openapi.New(openapi.Config{})
	case "php":
		return php.New(php.Config{})
	case "python":
		return python.New(python.Config{})
	case "typescript":
		return typescript.New(typescript.Config{})
	}
	panic("c15: unknown language " + name)
}

// runPipeline is ContextForLanguage on freshly built schemas with freshly
// loaded final passes (types only: the context's schemas are what is judged).
func runPipeline(sd seed, lang string, ops []op) (out ast.Schemas, err error, panicked any) {
	var passes compiler.Passes
	for _, o := range ops {
		p, perr := o.pass()
		if perr != nil {
			vx.Fatalf("operation %s does not load: %v", o.Name, perr)
		}
		passes = append(passes, p)
	}
	pl := &codegen.Pipeline{}
	pl.Transforms.FinalPasses = passes
	in := sd.Build()
	panicked = vx.Catch(func() {
		var ctx languages.Context
		ctx, err = pl.ContextForLanguage(newLanguage(lang), in)
		out = ctx.Schemas
	})
	return out, err, panicked
}

func pipelineWitness(sd seed, lang string, ops []op) string {
	return "pipeline language=" + lang + " " + witness(sd, ops)
}

type pipelineStats struct {
	Transitions       int `json:"transitions"`
	Changed           int `json:"changed_something"`
	ConformingChanged int `json:"real_equals_model_and_changed"`
	NotJudged         int `json:"chain_error_or_panic_not_judged"`
	Undefined         int `json:"not_judged_undefined_by_docs"`
	Failing           int `json:"failing"`
	DerivedObjects    int `json:"objects_created_by_the_language_passes"`
	Unstable          int `json:"seeds_skipped_language_passes_not_reproducible"`
}

// pipelineTransition judges the last of the final passes prefix+o.
func (e *explorer) pipelineTransition(sd seed, lang string, prefix []op, pre mState, preStripped string, o op, opIdx int, verbose bool) (kinds []string) {
	seq := append(append([]op{}, prefix...), o)
	st := func(f func(s *pipelineStats)) {
		e.mu.Lock()
		defer e.mu.Unlock()
		if e.pipe[lang] == nil {
			e.pipe[lang] = &pipelineStats{}
		}
		f(e.pipe[lang])
	}
	fail := func(kind, what string) {
		kind = "after the " + lang + " passes (final pass): " + kind
		kinds = append(kinds, kind)
		var parents []string
		if len(seq) > 1 {
			for i := range seq {
				red := append(append([]op{}, seq[:i]...), seq[i+1:]...)
				parents = append(parents, pipelineWitness(sd, lang, red))
			}
		}
		e.r.Fail(vx.Failure{
			Kind:    kind,
			Witness: pipelineWitness(sd, lang, seq),
			Size:    len(seq)*1000000 + sd.Size*1000 + opIdx,
			Parents: parents,
			What:    fmt.Sprintf("%s as final pass of ContextForLanguage(%s) on seed %q: %s", o.Name, lang, sd.Name, what),
			Detail:  map[string]any{"seed": sd.Name, "lang": lang, "ops": names(seq), "kind": kind},
		})
		if verbose {
			fmt.Printf("    FINDING %s\n      %s\n", kind, what)
		}
	}
	st(func(s *pipelineStats) { s.Transitions++ })
	var alts []alt
	ctx := &mctx{}
	if p := vx.Catch(func() { alts = o.Model(ctx, pre.clone()) }); p != nil {
		vx.Fatalf("model of %s panicked on %s: %v", o.Name, pipelineWitness(sd, lang, prefix), p)
	}
	got, err, pan := runPipeline(sd, lang, seq)
	if err != nil || pan != nil {
		st(func(s *pipelineStats) { s.NotJudged++ })
		if verbose {
			fmt.Printf("    the chain fails (not judged here): err=%v panic=%v\n", err, pan)
		}
		return kinds
	}
	if len(alts) == 0 {
		st(func(s *pipelineStats) { s.Undefined++ })
		return kinds
	}
	for _, a := range alts {
		if a.Err { // add_fields on a non-struct: the chain should have failed; judged in the plain layer
			st(func(s *pipelineStats) { s.Undefined++ })
			return kinds
		}
	}
	gotM := fromAST(got)
	findings, _ := judge(o, ctx, pre, alts, gotM)
	changed := canonState(normalise(gotM, normOpts{})) != preStripped
	st(func(s *pipelineStats) {
		if changed {
			s.Changed++
		}
		if len(findings) == 0 && changed {
			s.ConformingChanged++
		}
		if len(findings) > 0 {
			s.Failing++
		}
	})
	for _, f := range findings {
		fail(f.Kind, f.What)
	}
	if verbose && len(findings) == 0 {
		fmt.Printf("    conforms to the model (changed something: %v)\n", changed)
	}
	return kinds
}

// explorePipeline: for every language, every operation of the seed's alphabet
// as the only final pass; with depth 2, additionally every pair over the
// reduced alphabet for the languages whose passes change the seed.
func (e *explorer) explorePipeline(sd seed, depth int) (transitions int) {
	seedM := fromAST(sd.Build())
	ops := alphabet(seedM)
	type job struct {
		lang   string
		prefix []op
		pre    mState
		strip  string
		oi     int
	}
	var jobs []job
	noneCanon := ""
	for _, lang := range pipelineLangs {
		base, err, pan := runPipeline(sd, lang, nil)
		if err != nil || pan != nil {
			e.mu.Lock()
			if e.pipe[lang] == nil {
				e.pipe[lang] = &pipelineStats{}
			}
			e.pipe[lang].NotJudged++
			e.mu.Unlock()
			continue
		}
		stable := true
		for i := 0; i < 2; i++ {
			again, _, _ := runPipeline(sd, lang, nil)
			if refl.Canon(again) != refl.Canon(base) {
				stable = false
			}
		}
		pre := fromAST(base)
		derived := 0
		for _, p := range pre {
			for _, ob := range p.Objects {
				if sp := seedM.pkg(p.Package); sp == nil || sp.index(ob.O.Name) < 0 {
					derived++
				}
			}
		}
		e.mu.Lock()
		if e.pipe[lang] == nil {
			e.pipe[lang] = &pipelineStats{}
		}
		e.pipe[lang].DerivedObjects += derived
		if !stable {
			e.pipe[lang].Unstable++
		}
		e.mu.Unlock()
		if !stable {
			continue
		}
		strip := canonState(normalise(pre, normOpts{}))
		for oi := range ops {
			jobs = append(jobs, job{lang: lang, pre: pre, strip: strip, oi: oi})
		}
		if lang == "none" {
			noneCanon = refl.Canon(base)
		}
		// pairs: only where the language passes did something (otherwise the
		// chain is the plain layer's), both operations from the reduced alphabet
		if depth >= 2 && refl.Canon(base) != noneCanon {
			for ai, a := range ops {
				if !a.Reduced {
					continue
				}
				s1, err1, pan1 := runPipeline(sd, lang, []op{ops[ai]})
				if err1 != nil || pan1 != nil {
					continue
				}
				pre1 := fromAST(s1)
				strip1 := canonState(normalise(pre1, normOpts{}))
				if strip1 == strip {
					continue // the first pass changed nothing: covered by depth 1
				}
				for oi := range ops {
					if ops[oi].Reduced {
						jobs = append(jobs, job{lang: lang, prefix: []op{ops[ai]}, pre: pre1, strip: strip1, oi: oi})
					}
				}
			}
		}
	}
	ch := make(chan job, 256)
	var wg sync.WaitGroup
	var mu sync.Mutex
	for w := 0; w < runtime.NumCPU(); w++ {
		wg.Add(1)
		go func() {
			defer wg.Done()
			for j := range ch {
				if e.outOfBudget() {
					e.mu.Lock()
					e.timedOut = true
					e.mu.Unlock()
					continue
				}
				e.pipelineTransition(sd, j.lang, j.prefix, j.pre, j.strip, ops[j.oi], j.oi, false)
				mu.Lock()
				transitions++
				mu.Unlock()
			}
		}()
	}
	for _, j := range jobs {
		ch <- j
	}
	close(ch)
	wg.Wait()
	return transitions
}

func sortedKeys[V any](m map[string]V) []string {
	var k []string
	for s := range m {
		k = append(k, s)
	}
	sort.Strings(k)
	return k
}
