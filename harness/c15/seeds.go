//go:build verif

package main

import (
	"github.com/grafana/cog/internal/ast"
	"github.com/grafana/cog/verifx/irgen"
)

type seed struct {
	Name  string
	Size  int
	Build func() ast.Schemas
}

func specSeed(s irgen.SchemaSpec) seed {
	return seed{Name: s.Name, Size: s.Size(), Build: s.Build}
}

// seeds = irgen.SeedSchemas() + IRs aimed at this property: one name in both
// packages together with names differing only in case, enums with spaces (also
// as a map index type), constants, defaults, nullable referring positions,
// comments on objects and fields, and a struct carrying the hint
// DisjunctionToType leaves behind (a discriminator mapping kept in a hint).
func seeds() []seed {
	var out []seed
	for _, s := range irgen.SeedSchemas() {
		out = append(out, specSeed(s))
	}
	P := irgen.Pkg
	S, Ref, StructN, F := irgen.S, irgen.Ref, irgen.StructN, func(n string, r bool) irgen.Field { return irgen.Field{Name: n, Required: r} }

	// tiny: the smallest IR on which most transformations have a target; used
	// so that minimal witnesses are small.
	tiny := irgen.SchemaSpec{Name: "tiny", Pkgs: []irgen.PkgSpec{{Pkg: P, EntryPoint: "Obj", Objects: []irgen.ObjSpec{
		{Name: "Obj", Comments: []string{"an object"}, T: StructN([]irgen.Field{F("a", true), F("b", false)},
			[]irgen.Term{{K: "scalar", A: "string", Default: "scalar"}, {K: "ref", A: P + ".K", Nullable: true, Default: "scalar", Hints: 1}})},
		{Name: "K", T: irgen.Const("str")},
	}}}}
	out = append(out, specSeed(tiny))

	shared := irgen.SchemaSpec{Name: "shared", Pkgs: []irgen.PkgSpec{
		{Pkg: P, EntryPoint: "Shared", Identifier: "Pid", Objects: []irgen.ObjSpec{
			{Name: "Shared", Comments: []string{"shared in p", "second line"}, T: StructN(
				[]irgen.Field{F("id", true), F("Id", false), F("peer", false), F("mode", true), F("byMode", false), F("k", true)},
				[]irgen.Term{
					{K: "scalar", A: "string", Default: "scalar", Hints: 1},
					{K: "scalar", A: "int64", Nullable: true, Default: "scalar"},
					{K: "ref", A: "q.Shared", Nullable: true},
					{K: "ref", A: P + ".Mode", Default: "scalar", Hints: 2},
					irgen.MapIdx(irgen.Enum("space"), Ref(P+".shared")),
					Ref(P + ".K"),
				})},
			{Name: "shared", Comments: []string{"lower-case twin"}, T: StructN([]irgen.Field{F("id", false), F("up", true)},
				[]irgen.Term{{K: "scalar", A: "bool", Default: "scalar"}, Ref(P + ".Shared")})},
			{Name: "Mode", T: irgen.Enum("space")},
			{Name: "K", T: irgen.Const("str")},
			{Name: "k", T: irgen.Const("int")},
		}},
		{Pkg: "q", Identifier: "Qid", EntryPoint: "Shared", Objects: []irgen.ObjSpec{
			{Name: "Shared", Comments: []string{"shared in q"}, T: StructN([]irgen.Field{F("id", true), F("back", false), F("c", true)},
				[]irgen.Term{S("string"), {K: "array", Sub: []irgen.Term{Ref(P + ".Shared")}, Default: "list"}, irgen.ConstRef(P + ".Mode")})},
			{Name: "K", T: irgen.Const("str")},
		}},
	}}
	out = append(out, seed{Name: shared.Name, Size: shared.Size() + 2, Build: func() ast.Schemas {
		s := shared.Build()
		// field comments (the grammar has none)
		o := s[0].Objects.Get("Shared")
		o.Type.Struct.Fields[0].Comments = []string{"the id"}
		o.Type.Struct.Fields[2].Comments = []string{"peer in q"}
		s[0].Objects.Set("Shared", o)
		return s
	}})

	// tripkg: one object name (Legacy, a struct with the same fields; Mode, a
	// string constant) in three packages, next to each package's own objects,
	// with references across the packages; gamma also has a lower-case twin.
	legacy := func(extra string) irgen.Term {
		return StructN([]irgen.Field{F("id", true), F("name", false), F(extra, false)},
			[]irgen.Term{S("string"), {K: "scalar", A: "string", Default: "scalar"}, S("bool")})
	}
	tripkg := irgen.SchemaSpec{Name: "tripkg", Pkgs: []irgen.PkgSpec{
		{Pkg: "alpha", EntryPoint: "Dashboard", Objects: []irgen.ObjSpec{
			{Name: "Dashboard", T: StructN([]irgen.Field{F("id", true), F("old", false), F("theirs", false)},
				[]irgen.Term{S("string"), Ref("alpha.Legacy"), Ref("beta.Legacy")})},
			{Name: "Legacy", Comments: []string{"alpha's"}, T: legacy("a")},
			{Name: "Mode", T: irgen.Const("str")},
			{Name: "Link", T: StructN([]irgen.Field{F("id", false), F("url", true)}, []irgen.Term{S("int64"), S("string")})},
		}},
		{Pkg: "beta", Objects: []irgen.ObjSpec{
			{Name: "Legacy", Comments: []string{"beta's"}, T: legacy("b")},
			{Name: "Mode", T: irgen.Const("str")},
			{Name: "Panel", T: StructN([]irgen.Field{F("id", true), F("mode", false)}, []irgen.Term{S("string"), Ref("gamma.Mode")})},
		}},
		{Pkg: "gamma", Objects: []irgen.ObjSpec{
			{Name: "Legend", T: StructN([]irgen.Field{F("id", true)}, []irgen.Term{S("string")})},
			{Name: "Legacy", Comments: []string{"gamma's"}, T: legacy("c")},
			{Name: "legacy", T: StructN([]irgen.Field{F("id", true)}, []irgen.Term{Ref("gamma.Legacy")})},
			{Name: "Mode", T: irgen.Const("str")},
		}},
	}}
	out = append(out, specSeed(tripkg))

	hinted := irgen.SchemaSpec{Name: "hinted", Pkgs: []irgen.PkgSpec{{Pkg: P, EntryPoint: "SOrT", Objects: append([]irgen.ObjSpec{
		{Name: "SOrT", T: StructN([]irgen.Field{F("S", false), F("T", false)}, []irgen.Term{irgen.Nullable(Ref(P + ".S")), irgen.Nullable(Ref(P + ".T"))})},
		{Name: "Holder", T: StructN([]irgen.Field{F("u", true)}, []irgen.Term{Ref(P + ".SOrT")})},
	}, irgen.Support(P)...)}}}
	out = append(out, seed{Name: hinted.Name, Size: hinted.Size() + 3, Build: func() ast.Schemas {
		s := hinted.Build()
		o := s[0].Objects.Get("SOrT")
		o.Type.Hints[ast.HintDiscriminatedDisjunctionOfRefs] = ast.DisjunctionType{
			Branches:             ast.Types{ast.NewRef(P, "S"), ast.NewRef(P, "T")},
			Discriminator:        "kind",
			DiscriminatorMapping: map[string]string{"str": "S", "int": "T"},
		}
		s[0].Objects.Set("SOrT", o)
		return s
	}})
	return out
}
