//go:build verif

// rewriter: instruments every `for ... range <map>` of the cog module and of
// grafana/codejen with the controlled iterator verifx/sched.Map (DESIGN §2.3).
// usage: rewriter <repo-dir> <out-dir>   → <out-dir>/overlay.json, <out-dir>/report.json
package main

import (
	"bytes"
	"encoding/json"
	"fmt"
	"go/ast"
	"go/printer"
	"go/token"
	"go/types"
	"os"
	"path/filepath"
	"sort"
	"strings"

	"golang.org/x/tools/go/ast/astutil"
	"golang.org/x/tools/go/packages"
)

const schedPkg = "github.com/grafana/cog/verifx/sched"

type report struct {
	Sites      []string `json:"sites"`
	Unmodelled []string `json:"unmodelled"`
	Files      int      `json:"files"`
}

func main() {
	repo, outDir := os.Args[1], os.Args[2]
	os.MkdirAll(outDir, 0o755)
	cfg := &packages.Config{
		Mode: packages.NeedName | packages.NeedFiles | packages.NeedSyntax | packages.NeedTypes | packages.NeedTypesInfo | packages.NeedImports | packages.NeedDeps | packages.NeedCompiledGoFiles,
		Dir:  repo,
		Env:  append(os.Environ(), "GOFLAGS=-mod=mod"),
	}
	pkgs, err := packages.Load(cfg, "./...", "github.com/grafana/codejen")
	if err != nil {
		fmt.Fprintln(os.Stderr, "rewriter: load:", err)
		os.Exit(2)
	}
	if packages.PrintErrors(pkgs) > 0 {
		os.Exit(2)
	}
	overlay := map[string]string{}
	rep := report{}
	for _, p := range pkgs {
		if strings.Contains(p.PkgPath, "/verifx/") {
			continue
		}
		for i, f := range p.Syntax {
			fname := p.CompiledGoFiles[i]
			if strings.HasSuffix(fname, "_test.go") {
				continue
			}
			n := 0
			perFunc := map[string]int{}
			var fn string
			astutil.Apply(f, func(c *astutil.Cursor) bool {
				switch nd := c.Node().(type) {
				case *ast.FuncDecl:
					fn = nd.Name.Name
					if nd.Recv != nil && len(nd.Recv.List) == 1 {
						fn = types.ExprString(nd.Recv.List[0].Type) + "." + fn
					}
				case *ast.GoStmt:
					rep.Unmodelled = append(rep.Unmodelled, fmt.Sprintf("go statement in %s.%s", p.PkgPath, fn))
				case *ast.SelectorExpr:
					if id, ok := nd.X.(*ast.Ident); ok {
						if pn, ok := p.TypesInfo.Uses[id].(*types.PkgName); ok {
							full := pn.Imported().Path() + "." + nd.Sel.Name
							switch full {
							case "maps.Keys", "maps.Values", "maps.All", "time.Now", "math/rand.Intn", "math/rand.Int", "math/rand/v2.IntN", "os.Getenv", "os.Environ":
								rep.Unmodelled = append(rep.Unmodelled, fmt.Sprintf("%s used in %s.%s", full, p.PkgPath, fn))
							}
						}
					}
					if nd.Sel.Name == "MapRange" || nd.Sel.Name == "MapKeys" {
						rep.Unmodelled = append(rep.Unmodelled, fmt.Sprintf("reflect %s in %s.%s", nd.Sel.Name, p.PkgPath, fn))
					}
				case *ast.RangeStmt:
					t := p.TypesInfo.TypeOf(nd.X)
					if t == nil {
						return true
					}
					if _, ok := t.Underlying().(*types.Map); !ok {
						if tp, ok := t.(*types.TypeParam); ok {
							rep.Unmodelled = append(rep.Unmodelled, fmt.Sprintf("range over type parameter %s in %s.%s", tp, p.PkgPath, fn))
						}
						return true
					}
					n++
					perFunc[fn]++
					site := fmt.Sprintf("%s.%s#%d", p.PkgPath, fn, perFunc[fn])
					nd.X = &ast.CallExpr{
						Fun:  &ast.SelectorExpr{X: ast.NewIdent("verifsched"), Sel: ast.NewIdent("Map")},
						Args: []ast.Expr{nd.X, &ast.BasicLit{Kind: token.STRING, Value: fmt.Sprintf("%q", site)}},
					}
					rep.Sites = append(rep.Sites, site)
				}
				return true
			}, nil)
			if n == 0 {
				continue
			}
			astutil.AddNamedImport(p.Fset, f, "verifsched", schedPkg)
			var buf bytes.Buffer
			if !strings.HasPrefix(fname, repo) {
				buf.WriteString("//go:build go1.23\n\n")
			}
			if err := printer.Fprint(&buf, p.Fset, f); err != nil {
				fmt.Fprintln(os.Stderr, "rewriter: print:", err)
				os.Exit(2)
			}
			out := filepath.Join(outDir, strings.ReplaceAll(strings.TrimPrefix(fname, "/"), "/", "__"))
			if err := os.WriteFile(out, buf.Bytes(), 0o644); err != nil {
				fmt.Fprintln(os.Stderr, "rewriter:", err)
				os.Exit(2)
			}
			overlay[fname] = out
			rep.Files++
		}
	}
	sort.Strings(rep.Sites)
	sort.Strings(rep.Unmodelled)
	b, _ := json.MarshalIndent(map[string]any{"Replace": overlay}, "", " ")
	os.WriteFile(filepath.Join(outDir, "overlay.json"), b, 0o644)
	b, _ = json.MarshalIndent(rep, "", " ")
	os.WriteFile(filepath.Join(outDir, "report.json"), b, 0o644)
	fmt.Printf("rewriter: %d sites in %d files, %d unmodelled notes\n", len(rep.Sites), rep.Files, len(rep.Unmodelled))
}
