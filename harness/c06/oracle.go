//go:build verif

package main

// The oracle of C06: a transcription of the property statement
// (/verif/properties.jsonl, C06) over a COMPLETE walker of the IR.
//
// Clauses and the sentence of the statement that backs each of them:
//
//	union        "for Go and Java no union type remains anywhere"
//	enum         "for Go, Java and PHP every enum is a named object"
//	struct       "for Go, Java, PHP and Python every struct outside an `allOf`
//	              composition is a named object"
//	nullable     "[for Go, Java, PHP and Python] every non-required field is nullable"
//	T|null       "[for Go, Java, PHP and Python] no two-branch `T | null` union remains"
//	name-go      "Enum member names meet the language's identifier rules (prefixed for Go"
//	name-numeric "never purely numeric for TypeScript and Python"
//	name-php     "sanitised for PHP)"
//
// Leniences (where the statement is silent the oracle does not demand):
//
//   - Only types are walked. Values stored in Type.Hints (DisjunctionToType
//     keeps the original DisjunctionType there as a hint) are not "union types
//     that remain": they are annotations, not positions a generator emits a
//     type for.
//   - "named object" = the type is the top-level type of an ast.Object.
//   - A struct that is a branch of an intersection, or sits anywhere below
//     one, is "inside an allOf composition" and is exempt from the struct
//     clause (only from that clause).
//   - The member-name clauses are judged on enums that ARE named objects: only
//     there member names are emitted as identifiers. An enum that is nested in
//     another type is rendered by value in TypeScript/Python (literal types)
//     and is reported by the enum clause for Go/Java/PHP instead.
//   - Go "prefixed": PrefixEnumValues' doc comment says members are prefixed
//     "with the name of the enum object in which they are defined". The
//     comparison ignores case and non-alphanumeric characters, so any casing
//     convention of the prefix is accepted.
//   - TypeScript/Python "purely numeric": optional sign followed by digits only.
//   - PHP "sanitised": characters outside [A-Za-z0-9_] are ignored (an emitter
//     may drop or replace separators); what remains must be able to form a PHP
//     identifier: not empty and not starting with a digit. The statement names
//     no rule for Java, so none is checked.
//   - Schema.EntryPointType is walked as well (it is part of what `inspect`
//     prints) but only when set.

import (
	"fmt"
	"regexp"
	"sort"
	"strings"

	"github.com/grafana/cog/internal/ast"
)

const (
	clUnion    = "union type remains"
	clEnum     = "enum is not a named object"
	clStruct   = "struct outside allOf is not a named object"
	clNullable = "non-required field is not nullable"
	clTNull    = "two-branch T|null union remains"
	clNameGo   = "enum member name lacks the object-name prefix"
	clNameNum  = "enum member name is purely numeric"
	clNamePHP  = "enum member name is not sanitised"
)

var allClauses = []string{clUnion, clEnum, clStruct, clNullable, clTNull, clNameGo, clNameNum, clNamePHP}

var langs = []string{"go", "java", "php", "python", "typescript"}

// clausesOf: which sentences of the statement apply to which language.
var clausesOf = map[string]map[string]bool{
	"go":         {clUnion: true, clEnum: true, clStruct: true, clNullable: true, clTNull: true, clNameGo: true},
	"java":       {clUnion: true, clEnum: true, clStruct: true, clNullable: true, clTNull: true},
	"php":        {clEnum: true, clStruct: true, clNullable: true, clTNull: true, clNamePHP: true},
	"python":     {clStruct: true, clNullable: true, clTNull: true, clNameNum: true},
	"typescript": {clNameNum: true},
}

// the pass the anchors name as the one establishing each clause (used in the
// human-readable text only, never in the verdict).
var responsible = map[string]string{
	clUnion:    "DisjunctionToType",
	clEnum:     "AnonymousEnumToExplicitType",
	clStruct:   "AnonymousStructsToNamed",
	clNullable: "NotRequiredFieldAsNullableType",
	clTNull:    "DisjunctionWithNullToOptional",
	clNameGo:   "PrefixEnumValues",
	clNameNum:  "RenameNumericEnumValues",
	clNamePHP:  "SanitizeEnumMemberNames",
}

type violation struct {
	Clause string
	Pos    string // position class (normalised)
	Where  string // concrete position, for humans
}

func (v violation) kind(lang string) string { return lang + ": " + v.Clause + " @ " + v.Pos }

// isName: the member-name clauses (their kinds carry no "since <pass>").
func (v violation) isName() bool {
	return v.Clause == clNameGo || v.Clause == clNameNum || v.Clause == clNamePHP
}

// step of a path from an object's top-level type down to a node.
type step struct {
	class string // position-class fragment
	label string // concrete label
}

var (
	numericRe = regexp.MustCompile(`^[+-]?[0-9]+$`)
	nonIdent  = regexp.MustCompile(`[^A-Za-z0-9_]`)
	nonAlnum  = regexp.MustCompile(`[^A-Za-z0-9]`)
	trailArgs = regexp.MustCompile(`\[.*$`)
)

func kindWord(t ast.Type) string {
	switch t.Kind {
	case ast.KindDisjunction:
		return "union"
	case ast.KindScalar:
		if t.Scalar != nil && t.Scalar.ScalarKind == ast.KindNull {
			return "null"
		}
		if t.Scalar != nil && t.Scalar.Value != nil {
			return "constant"
		}
		return "scalar"
	case ast.KindConstantRef:
		return "constant reference"
	case ast.KindComposableSlot:
		return "composable slot"
	case "":
		return "untyped"
	}
	return string(t.Kind)
}

// posClass is the position class of a construct: the construct and its
// IMMEDIATE container ("union in union branch", "enum in map index", "struct
// in array", "T|null in optional field", "... as top-level type"). Deeper
// context and the object the type belongs to are deliberately abstracted away:
// passes that merely relocate a type (hoisting a struct into a new object,
// inlining an alias) must not change the class, and one cause must not produce
// one kind per nesting depth. The concrete position is kept in the
// human-readable text.
func posClass(what string, path []step) string {
	if len(path) == 0 {
		return what + " as top-level type"
	}
	return what + " in " + path[len(path)-1].class
}

func wherePath(obj string, path []step) string {
	s := obj
	for _, p := range path {
		s += p.label
	}
	return s
}

type evaluator struct {
	inputObjects map[string]bool // names of the objects of the input IR
	out          []violation
	seen         map[string]bool
}

func (e *evaluator) add(clause, pos, where string) {
	k := clause + "\x00" + pos
	if e.seen[k] {
		return
	}
	e.seen[k] = true
	e.out = append(e.out, violation{Clause: clause, Pos: pos, Where: where})
}

func (e *evaluator) origin(obj ast.Object) string {
	if e.inputObjects[obj.Name] {
		return "an input object"
	}
	for _, tr := range obj.PassesTrail {
		return "an object created by " + trailArgs.ReplaceAllString(tr, "")
	}
	return "an object created by a pass"
}

// evaluate returns every violated (clause, position class) of every clause
// (the caller filters by language), sorted.
func evaluate(schemas ast.Schemas, inputObjects map[string]bool) []violation {
	e := &evaluator{inputObjects: inputObjects, seen: map[string]bool{}}
	for _, sch := range schemas {
		if sch == nil {
			continue
		}
		if sch.EntryPointType.Kind != "" {
			e.walk(sch.EntryPointType, "<entry point type of "+sch.Package+">", "the schema", nil, false)
		}
		if sch.Objects == nil {
			continue
		}
		sch.Objects.Iterate(func(_ string, obj ast.Object) {
			origin := e.origin(obj)
			e.walk(obj.Type, obj.Name, origin, nil, false)
			if obj.Type.Kind == ast.KindEnum && obj.Type.Enum != nil {
				e.names(obj, origin)
			}
		})
	}
	sort.Slice(e.out, func(i, j int) bool {
		if e.out[i].Clause != e.out[j].Clause {
			return e.out[i].Clause < e.out[j].Clause
		}
		return e.out[i].Pos < e.out[j].Pos
	})
	return e.out
}

func (e *evaluator) names(obj ast.Object, origin string) {
	// The position class of a name violation is the class of the offending
	// NAME (where the enum object came from does not matter: every nested
	// enum ends up as such an object).
	prefix := strings.ToLower(nonAlnum.ReplaceAllString(obj.Name, ""))
	for _, m := range obj.Type.Enum.Values {
		where := fmt.Sprintf("%s member %q (%s)", obj.Name, m.Name, origin)
		if !strings.HasPrefix(strings.ToLower(nonAlnum.ReplaceAllString(m.Name, "")), prefix) {
			e.add(clNameGo, "member of an enum object", where)
		}
		if numericRe.MatchString(m.Name) {
			e.add(clNameNum, nameClass(m.Name)+" of an enum object", where)
		}
		rest := nonIdent.ReplaceAllString(m.Name, "")
		if rest == "" || (rest[0] >= '0' && rest[0] <= '9') {
			e.add(clNamePHP, nameClass(m.Name)+" of an enum object", where)
		}
	}
}

func nameClass(name string) string {
	switch {
	case name == "":
		return "empty name"
	case name[0] == '-':
		return "name with a leading minus sign"
	case name[0] == '+':
		return "name with a leading plus sign"
	case name[0] >= '0' && name[0] <= '9':
		return "name starting with a digit"
	case nonIdent.ReplaceAllString(name, "") == "":
		return "name without any identifier character"
	}
	return "name whose first identifier character is a digit"
}

// walk visits t and everything below it: struct fields, array elements, map
// index AND value types, disjunction and intersection branches, enum member
// types.
func (e *evaluator) walk(t ast.Type, obj string, origin string, path []step, underInter bool) {
	sub := func(s step) []step { return append(append([]step{}, path...), s) }
	switch t.Kind {
	case ast.KindDisjunction:
		e.add(clUnion, posClass("union", path), wherePath(obj, path)+" ("+origin+")")
		if t.Disjunction == nil {
			return
		}
		if len(t.Disjunction.Branches) == 2 && (isNull(t.Disjunction.Branches[0]) || isNull(t.Disjunction.Branches[1])) {
			e.add(clTNull, posClass("T|null", path), wherePath(obj, path)+" ("+origin+")")
		}
		for i, b := range t.Disjunction.Branches {
			e.walk(b, obj, origin, sub(step{"union branch", fmt.Sprintf("|%d", i)}), underInter)
		}
	case ast.KindIntersection:
		if t.Intersection == nil {
			return
		}
		for i, b := range t.Intersection.Branches {
			e.walk(b, obj, origin, sub(step{"intersection branch", fmt.Sprintf("&%d", i)}), true)
		}
	case ast.KindArray:
		if t.Array != nil {
			e.walk(t.Array.ValueType, obj, origin, sub(step{"array", "[]"}), underInter)
		}
	case ast.KindMap:
		if t.Map != nil {
			e.walk(t.Map.IndexType, obj, origin, sub(step{"map index", "<index>"}), underInter)
			e.walk(t.Map.ValueType, obj, origin, sub(step{"map value", "<value>"}), underInter)
		}
	case ast.KindEnum:
		if len(path) > 0 {
			e.add(clEnum, posClass("enum", path), wherePath(obj, path)+" ("+origin+")")
		}
		if t.Enum != nil {
			for i, m := range t.Enum.Values {
				e.walk(m.Type, obj, origin, sub(step{"enum member type", fmt.Sprintf("<member %d>", i)}), underInter)
			}
		}
	case ast.KindStruct:
		if len(path) > 0 && !underInter {
			e.add(clStruct, posClass("struct", path), wherePath(obj, path)+" ("+origin+")")
		}
		if t.Struct == nil {
			return
		}
		for _, f := range t.Struct.Fields {
			cls := "field"
			if !f.Required {
				cls = "optional field"
			}
			fp := sub(step{cls, "." + f.Name})
			if !f.Required && !f.Type.Nullable {
				structPos := "top-level struct"
				if len(path) > 0 {
					structPos = posClass("struct", path)
				}
				e.add(clNullable, kindWord(f.Type)+"-typed field of "+structPos, wherePath(obj, fp)+" ("+origin+")")
			}
			e.walk(f.Type, obj, origin, fp, underInter)
		}
	}
}

func isNull(t ast.Type) bool {
	return t.Kind == ast.KindScalar && t.Scalar != nil && t.Scalar.ScalarKind == ast.KindNull
}
