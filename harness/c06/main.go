//go:build verif

// C06: after the built-in transformation chain of a target language the IR
// contains only constructs that language's generators handle (DESIGN.md §6
// C06). Engine E3 (shapeenum): every term of grammar I up to a depth, placed as
// an object's type / a required field / an optional field, is pushed through
// each language's chain exactly as codegen.Pipeline.ContextForLanguage does it
// (the real method is called), and the resulting normal form is judged by the
// walker of oracle.go.
package main

import (
	"encoding/json"
	"fmt"
	"os"
	"reflect"
	"regexp"
	"runtime"
	"sort"
	"strings"
	"sync"
	"sync/atomic"
	"time"

	"github.com/grafana/cog/internal/ast"
	"github.com/grafana/cog/internal/codegen"
	"github.com/grafana/cog/internal/jennies/golang"
	"github.com/grafana/cog/internal/jennies/java"
	"github.com/grafana/cog/internal/jennies/php"
	"github.com/grafana/cog/internal/jennies/python"
	"github.com/grafana/cog/internal/jennies/typescript"
	"github.com/grafana/cog/internal/languages"
	"github.com/grafana/cog/verifx/irgen"
	"github.com/grafana/cog/verifx/vx"
)

// ---------------------------------------------------------------- languages

// newLanguage builds the language exactly like Pipeline.OutputLanguages does
// (New(config)); CompilerPasses() does not depend on the configuration.
func newLanguage(name string) languages.Language {
	switch name {
	case "go":
		return golang.New(golang.Config{})
	case "java":
		return java.New(java.Config{})
	case "php":
		return php.New(php.Config{})
	case "python":
		return python.New(python.Config{})
	case "typescript":
		return typescript.New(typescript.Config{})
	}
	vx.Fatalf("unknown language %q", name)
	return nil
}

// ---------------------------------------------------------------- cases

// placements of the enumerated term T in package p (support objects S,T,E,A,K):
//
//	root      object Root = T
//	field     object Root = {f: T}
//	optfield  object Root = {f?: T}
//	aliased   object Root = {f: T} next to an object Al = ref(p.S), an alias of
//	          the struct S (Java's RemoveIntersections only acts when such an
//	          alias object exists; without it that pass of the chain is idle)
//
// Multi-occurrence placements: the SAME term sits in two or three positions of
// one schema with different requiredness, in both orders ("second occurrence of
// a shape a pass already handled" — passes with per-run state: generated object
// names, caches). Enumerated for terms of depth <= 2 (quick) / <= 3 (thorough):
//
//	twice-ro    Root = {f: T, g?: T}
//	twice-or    Root = {f?: T, g: T}
//	thrice-roa  Root = {f: T, g?: T, h?: array(T)}
//	thrice-aor  Root = {f?: array(T), g?: T, h: T}
//	objs-ro     Root = {f: T},  Zed = {g?: T}     (two objects of package p)
//	objs-or     Root = {f?: T}, Zed = {g: T}
//	objs-to     Root = T,       Zed = {g?: T}
var places = []string{"root", "field", "optfield", "aliased"}

var multiPlaces = []string{"twice-ro", "twice-or", "thrice-roa", "thrice-aor", "objs-ro", "objs-or", "objs-to"}

func isMulti(place string) bool {
	for _, p := range multiPlaces {
		if p == place {
			return true
		}
	}
	return false
}

func multiDepth(thorough bool) int {
	if thorough {
		return 3
	}
	return 2
}

type testCase struct {
	Place string
	Term  irgen.Term
}

func (c testCase) witness() string { return c.Place + ":" + c.Term.String() }

func (c testCase) spec() irgen.SchemaSpec {
	switch c.Place {
	case "root":
		return irgen.WithRoot(c.Term)
	case "field":
		return irgen.WithField(c.Term, true)
	case "aliased":
		sp := irgen.WithField(c.Term, true)
		sp.Name = "aliased:" + c.Term.String()
		sp.Pkgs[0].Objects = append(sp.Pkgs[0].Objects, irgen.ObjSpec{Name: "Al", T: irgen.Ref(irgen.Pkg + ".S")})
		return sp
	case "twice-ro", "twice-or", "thrice-roa", "thrice-aor", "objs-ro", "objs-or", "objs-to":
		t := c.Term
		var root irgen.Term
		var zed *irgen.Term
		fld := func(name string, req bool) irgen.Field { return irgen.Field{Name: name, Required: req} }
		switch c.Place {
		case "twice-ro":
			root = irgen.StructN([]irgen.Field{fld("f", true), fld("g", false)}, []irgen.Term{t, t})
		case "twice-or":
			root = irgen.StructN([]irgen.Field{fld("f", false), fld("g", true)}, []irgen.Term{t, t})
		case "thrice-roa":
			root = irgen.StructN([]irgen.Field{fld("f", true), fld("g", false), fld("h", false)}, []irgen.Term{t, t, irgen.Array(t)})
		case "thrice-aor":
			root = irgen.StructN([]irgen.Field{fld("f", false), fld("g", false), fld("h", true)}, []irgen.Term{irgen.Array(t), t, t})
		case "objs-ro":
			root = irgen.Struct1("f", true, t)
			z := irgen.Struct1("g", false, t)
			zed = &z
		case "objs-or":
			root = irgen.Struct1("f", false, t)
			z := irgen.Struct1("g", true, t)
			zed = &z
		case "objs-to":
			root = t
			z := irgen.Struct1("g", false, t)
			zed = &z
		}
		sp := irgen.WithRoot(root)
		sp.Name = c.witness()
		if zed != nil {
			sp.Pkgs[0].Objects = append(sp.Pkgs[0].Objects, irgen.ObjSpec{Name: "Zed", T: *zed})
		}
		return sp
	default:
		return irgen.WithField(c.Term, false)
	}
}

func (c testCase) size() int {
	switch c.Place {
	case "root":
		return c.Term.Size()
	case "field":
		return c.Term.Size() + 1
	case "aliased":
		return c.Term.Size() + 3
	case "twice-ro", "twice-or", "objs-ro", "objs-or", "objs-to":
		return 2*c.Term.Size() + 4
	case "thrice-roa", "thrice-aor":
		return 3*c.Term.Size() + 6
	}
	return c.Term.Size() + 2
}

// parents: the one-step reductions of the case (DESIGN §5.1): every reduction
// of the term in the same placement, optional field → required field (reset
// an attribute), field → the object's own type (hoist over the parent).
func (c testCase) parents() []string {
	var out []string
	for _, r := range reductionsOf(c.Term) {
		out = append(out, testCase{c.Place, r}.witness())
	}
	switch c.Place {
	case "optfield", "aliased": // reset the attribute / delete the unreferenced alias object
		out = append(out, testCase{"field", c.Term}.witness())
	case "field":
		out = append(out, testCase{"root", c.Term}.witness())
	case "twice-ro", "twice-or", "objs-ro", "objs-or": // delete one field / one object
		out = append(out, testCase{"field", c.Term}.witness(), testCase{"optfield", c.Term}.witness())
	case "objs-to":
		out = append(out, testCase{"root", c.Term}.witness(), testCase{"optfield", c.Term}.witness())
	case "thrice-roa": // delete the third field
		out = append(out, testCase{"twice-ro", c.Term}.witness())
	case "thrice-aor":
		out = append(out, testCase{"twice-or", c.Term}.witness())
	case "root":
		// Root = {a: X} is the field placement of X up to the field's name
		if t := c.Term; t.K == "struct" && len(t.Sub) == 1 && !t.Nullable {
			if t.Fields[0].Required {
				out = append(out, testCase{"field", t.Sub[0]}.witness())
			} else {
				out = append(out, testCase{"optfield", t.Sub[0]}.witness())
			}
		}
	}
	return out
}

// reductionsOf: the shared one-step reductions of grammar I plus "reset one
// leaf to the base value of its alphabet" for every kind of leaf (DESIGN §5.1:
// any leaf → `string`), so that one cause is not reported once per leaf kind.
func reductionsOf(t irgen.Term) []irgen.Term {
	seen := map[string]bool{t.String(): true}
	var out []irgen.Term
	for _, r := range append(t.Reductions(), leafResets(t)...) {
		if k := r.String(); !seen[k] {
			seen[k] = true
			out = append(out, r)
		}
	}
	return out
}

// candidates: the base values a leaf can be reset to, nearest first: a
// constant loses its value, a reference points to the base object S, an enum
// becomes the plain string enum, and every leaf can become `string`.
func candidates(l irgen.Term) []irgen.Term {
	if l.A == "null" || (l.K == "scalar" && l.A == "string") {
		return nil
	}
	var out []irgen.Term
	switch l.K {
	case "const":
		out = append(out, irgen.S(map[string]string{"str": "string", "int": "int64", "bool": "bool", "float": "float64", "digits": "string", "digits2": "string"}[l.A]))
	case "ref":
		if l.A != irgen.Pkg+".S" {
			out = append(out, irgen.Ref(irgen.Pkg+".S"))
			if l.A != irgen.Pkg+".T" {
				out = append(out, irgen.Ref(irgen.Pkg+".T"))
			}
		}
	case "enum":
		// a member-sequence enum loses one member (delete a child)
		for _, pre := range []string{"seq:", "iseq:"} {
			if strings.HasPrefix(l.A, pre) {
				ms := strings.Split(strings.TrimPrefix(l.A, pre), ",")
				for i := range ms {
					if len(ms) > 1 {
						rest := append(append([]string{}, ms[:i]...), ms[i+1:]...)
						out = append(out, irgen.Enum(pre+strings.Join(rest, ",")))
					}
				}
			}
		}
		if l.A != "str" {
			out = append(out, irgen.Enum("str"))
		}
	}
	if len(out) == 0 || out[0].String() != "string" {
		out = append(out, irgen.S("string"))
	}
	for i := range out {
		out[i].Nullable = l.Nullable
	}
	return out
}

// leafResets: reset ONE leaf occurrence, or ALL occurrences of one leaf value
// uniformly (so that `int64|int64` reduces to `string|string`).
func leafResets(t irgen.Term) []irgen.Term {
	out := oneLeaf(t)
	distinct := map[string]irgen.Term{}
	var order []string
	var collect func(t irgen.Term)
	collect = func(t irgen.Term) {
		if len(t.Sub) == 0 {
			if _, ok := distinct[t.String()]; !ok {
				distinct[t.String()] = t
				order = append(order, t.String())
			}
		}
		for _, s := range t.Sub {
			collect(s)
		}
	}
	collect(t)
	for _, k := range order {
		for _, c := range candidates(distinct[k]) {
			out = append(out, substitute(t, k, c))
		}
	}
	return out
}

func substitute(t irgen.Term, leaf string, by irgen.Term) irgen.Term {
	if len(t.Sub) == 0 {
		if t.String() == leaf {
			return by
		}
		return t
	}
	c := t
	c.Sub = make([]irgen.Term, len(t.Sub))
	for i, s := range t.Sub {
		c.Sub[i] = substitute(s, leaf, by)
	}
	return c
}

func oneLeaf(t irgen.Term) []irgen.Term {
	if len(t.Sub) == 0 {
		return candidates(t)
	}
	var out []irgen.Term
	for i, s := range t.Sub {
		for _, r := range oneLeaf(s) {
			c := t
			c.Sub = append([]irgen.Term{}, t.Sub...)
			c.Sub[i] = r
			out = append(out, c)
		}
	}
	return out
}

func reducedLeaves(t irgen.Term) bool {
	if len(t.Sub) == 0 {
		switch t.String() {
		case "string", "int64", "enum(str)", "null":
			return true
		}
		return false
	}
	for _, s := range t.Sub {
		if !reducedLeaves(s) {
			return false
		}
	}
	return true
}

// mirror reverses the branch lists of every union and intersection of t.
func mirror(t irgen.Term) irgen.Term {
	if len(t.Sub) == 0 {
		return t
	}
	c := t
	c.Sub = make([]irgen.Term, len(t.Sub))
	for i, s := range t.Sub {
		c.Sub[i] = mirror(s)
	}
	if t.K == "disj" || t.K == "inter" {
		for i, j := 0, len(c.Sub)-1; i < j; i, j = i+1, j-1 {
			c.Sub[i], c.Sub[j] = c.Sub[j], c.Sub[i]
		}
	}
	return c
}

func enumFlavours() []irgen.Term {
	return []irgen.Term{irgen.Enum("numname"), irgen.Enum("strnum"), irgen.Enum("odd"), irgen.Enum("space"), irgen.Enum("plus"), irgen.Enum("noname")}
}

// terms enumerates the grammar of the tier and closes it under one-step
// reductions, so that the explored space is downward closed by construction.
func terms(thorough bool) []irgen.Term {
	leaves := append(irgen.DefaultLeaves(), enumFlavours()...)
	var all []irgen.Term
	all = append(all, irgen.Types(irgen.Config{Depth: 3, Leaves: leaves})...)
	if thorough {
		inner := []irgen.Term{
			irgen.S("string"), irgen.S("int64"), irgen.S("any"), irgen.Const("str"),
			irgen.Enum("str"), irgen.Enum("numname"), irgen.Ref(irgen.Pkg + ".S"), irgen.Ref(irgen.Pkg + ".T"),
		}
		all = append(all, irgen.Types(irgen.Config{Depth: 4, Leaves: leaves, InnerLeaves: inner})...)
	}
	// families the shared grammar does not produce
	dw := []irgen.Term{irgen.S("string"), irgen.S("int64"), irgen.Ref(irgen.Pkg + ".S"), irgen.Ref(irgen.Pkg + ".T"), irgen.Const("str"), irgen.Array(irgen.S("string"))}
	wrap := func(t irgen.Term) []irgen.Term {
		return []irgen.Term{t, irgen.Array(t), irgen.Map(t), irgen.Struct1("a", false, t), irgen.Disj(t, irgen.S("bool")), irgen.Inter(irgen.Ref(irgen.Pkg+".S"), t)}
	}
	for _, l := range leaves {
		for _, o := range dw {
			if o.String() == l.String() {
				continue
			}
			// flat three-branch unions with null: T | U | null
			for _, w := range wrap(irgen.Disj(l, o, irgen.Null())) {
				all = append(all, w)
			}
		}
		// maps indexed by something else than a string / an anonymous enum
		all = append(all, irgen.MapIdx(l, irgen.S("string")), irgen.MapIdx(l, irgen.Enum("str")), irgen.MapIdx(l, irgen.Struct1("a", false, irgen.S("string"))))
		// two-field structs: one required, one optional
		for _, w := range wrap(irgen.StructN([]irgen.Field{{Name: "a", Required: true}, {Name: "b", Required: false}}, []irgen.Term{l, irgen.S("string")})) {
			all = append(all, w)
		}
	}
	// unions of string constants made of digits only: DisjunctionOfConstantsToEnum
	// turns them into string enums whose member names are purely numeric
	dg := irgen.Disj(irgen.Const("digits"), irgen.Const("digits2"))
	all = append(all, wrap(dg)...)
	all = append(all, wrap(irgen.Disj(irgen.Const("digits"), irgen.Const("digits2"), irgen.Null()))...)
	all = append(all, irgen.Disj(irgen.Const("digits"), irgen.Enum("strnum")), irgen.Disj(irgen.Const("digits"), irgen.Const("str")))
	// enums as member SEQUENCES: every sequence of 1..3 members over the member
	// alphabet {plain name, numeric name, negative numeric name}, string- and
	// int-typed (member order and mixtures: "a,1", "1,a", "1,a,-2", ...)
	alphabet := []string{"a", "1", "-2"}
	var seqs [][]string
	for _, a := range alphabet {
		seqs = append(seqs, []string{a})
		for _, b := range alphabet {
			if b == a {
				continue
			}
			seqs = append(seqs, []string{a, b})
			for _, c := range alphabet {
				seqs = append(seqs, []string{a, b, c + "x"}) // third member distinct by construction
			}
		}
	}
	for _, sq := range seqs {
		if len(sq) == 3 { // "1x" is not numeric: use a second numeric / plain token instead
			switch sq[2] {
			case "ax":
				sq[2] = "b"
			case "1x":
				sq[2] = "5"
			case "-2x":
				sq[2] = "-7"
			}
		}
		for _, pre := range []string{"seq:", "iseq:"} {
			all = append(all, wrap(irgen.Enum(pre+strings.Join(sq, ",")))...)
		}
	}
	// unions of string constants in every order, plain and digit-only mixed
	// (DisjunctionOfConstantsToEnum derives member names from the values)
	cs := []irgen.Term{irgen.Const("str"), irgen.Const("digits"), irgen.Const("digits2")}
	for i, a := range cs {
		for j, b := range cs {
			if i == j {
				continue
			}
			all = append(all, wrap(irgen.Disj(a, b))...)
			for k, c := range cs {
				if k != i && k != j {
					all = append(all, wrap(irgen.Disj(a, b, c))...)
				}
			}
		}
	}
	// deep nesting over a reduced leaf set: constructs reached through containers
	// inside objects that an earlier step of the chain created itself
	// (Root.f.options.thresholds[] ...). Depth 4 over {string,int64,enum} with
	// every wrapper, depth 5 (quick) / 6 (thorough) towers over {string}.
	if !thorough {
		inner := []irgen.Term{irgen.S("string"), irgen.S("int64"), irgen.Enum("str")}
		all = append(all, irgen.Types(irgen.Config{Depth: 4, Leaves: inner, InnerLeaves: inner})...)
	}
	towerDepth := 5
	if thorough {
		towerDepth = 6
	}
	all = append(all, irgen.Types(irgen.Config{
		Depth: towerDepth, Leaves: []irgen.Term{irgen.S("string")}, DisjWith: []irgen.Term{irgen.S("int64")},
		Wrappers: []string{"array", "map", "struct-req", "struct-opt", "disj-null", "disj", "inter"},
	})...)
	// maps indexed by an anonymous struct / a union
	all = append(all, irgen.MapIdx(irgen.Struct1("a", true, irgen.S("string")), irgen.S("string")), irgen.MapIdx(irgen.Disj(irgen.S("string"), irgen.S("int64")), irgen.S("string")))
	// discriminated union of references, three branches and with null
	d3 := irgen.Disj(irgen.Ref(irgen.Pkg+".S"), irgen.Ref(irgen.Pkg+".T"), irgen.Null())
	d3.Disc = true
	all = append(all, wrap(d3)...)

	// branch ORDER: the grammar always writes `T | null` and `T | U` with the
	// wrapped term first. Every term is also enumerated with the branches of all
	// its unions and intersections reversed (`null | T`, `U | T`, `T & S`), and
	// the flat three-branch unions in all six orders: a pass must not treat the
	// first element of a branch list differently from the others.
	for _, l := range leaves {
		for _, o := range dw[:2] {
			if o.String() == l.String() {
				continue
			}
			n := irgen.Null()
			for _, pm := range [][]irgen.Term{{l, n, o}, {n, l, o}, {o, n, l}} { // l,o,n above; o,l,n and n,o,l by mirroring
				all = append(all, wrap(irgen.Disj(pm...))...)
			}
		}
	}
	for _, t := range append([]irgen.Term{}, all...) {
		// the deep families are enumerated in the written order only, except
		// (thorough) depth 4 over the reduced leaf set {string,int64,enum}
		if t.Depth() > 3 && !(thorough && t.Depth() == 4 && reducedLeaves(t)) {
			continue
		}
		if m := mirror(t); m.String() != t.String() {
			all = append(all, m)
		}
	}

	seen := map[string]bool{}
	var out, queue []irgen.Term
	push := func(t irgen.Term) {
		k := t.String()
		if seen[k] {
			return
		}
		seen[k] = true
		out = append(out, t)
		queue = append(queue, t)
	}
	for _, t := range all {
		push(t)
	}
	for len(queue) > 0 {
		t := queue[0]
		queue = queue[1:]
		for _, r := range reductionsOf(t) {
			push(r)
		}
	}
	sort.SliceStable(out, func(i, j int) bool {
		if a, b := out[i].Size(), out[j].Size(); a != b {
			return a < b
		}
		return out[i].String() < out[j].String()
	})
	return out
}

// ---------------------------------------------------------------- execution

var pipeline = &codegen.Pipeline{} // default configuration: no final passes, no builders

var inputObjects = func() map[string]bool {
	m := map[string]bool{"Root": true, "Al": true, "Zed": true}
	for _, o := range irgen.Support(irgen.Pkg) {
		m[o.Name] = true
	}
	return m
}()

var (
	digits = regexp.MustCompile(`[0-9]+`)
	hexes  = regexp.MustCompile(`0x[0-9a-fA-F]+`)
)

func normalise(msg string) string {
	msg = hexes.ReplaceAllString(msg, "0xN")
	msg = digits.ReplaceAllString(msg, "N")
	if len(msg) > 120 {
		msg = msg[:120]
	}
	return msg
}

func passName(p any) string {
	t := reflect.TypeOf(p)
	for t.Kind() == reflect.Ptr {
		t = t.Elem()
	}
	return t.Name()
}

type outcome struct {
	Status string // judged | error | crash
	Err    string
	Viol   []violation // end-state violations of the language's clauses
	All    []violation // end-state violations of every clause (for statistics)
}

var executions atomic.Int64

// runChain executes the language's chain through the real
// Pipeline.ContextForLanguage on a freshly built input.
func runChain(lang string, c testCase) outcome {
	language := newLanguage(lang)
	input := c.spec().Build()
	var ctx languages.Context
	var err error
	executions.Add(1)
	if p := vx.Catch(func() { ctx, err = pipeline.ContextForLanguage(language, input) }); p != nil {
		return outcome{Status: "crash", Err: fmt.Sprint(p)}
	}
	if err != nil {
		return outcome{Status: "error", Err: err.Error()}
	}
	o := outcome{Status: "judged"}
	var oerr error
	if p := vx.Catch(func() { o.All = evaluate(ctx.Schemas, inputObjects) }); p != nil {
		// the walker is nil-safe; a panic here is a harness bug
		oerr = fmt.Errorf("oracle walker panicked on %s/%s: %v", lang, c.witness(), p)
	}
	if oerr != nil {
		vx.Fatalf("%v", oerr)
	}
	for _, v := range o.All {
		if clausesOf[lang][v.Clause] {
			o.Viol = append(o.Viol, v)
		}
	}
	return o
}

type stage struct {
	Name  string
	Kinds map[string]bool
}

// stagewise re-runs the chain pass by pass (the loop of compiler.Passes.Process:
// one deep copy, then each pass on the result of the previous one) and
// evaluates the oracle after every pass. Used only to describe a failure.
func stagewise(lang string, c testCase) (stages []stage, stopped string) {
	language := newLanguage(lang)
	passes := language.CompilerPasses().Concat(nil)
	cur := c.spec().Build().DeepCopy()
	snap := func(name string) {
		st := stage{Name: name, Kinds: map[string]bool{}}
		for _, v := range evaluate(cur, inputObjects) {
			if clausesOf[lang][v.Clause] {
				st.Kinds[v.kind(lang)] = true
			}
		}
		stages = append(stages, st)
	}
	snap("input")
	executions.Add(1)
	for _, p := range passes {
		var err error
		var next ast.Schemas
		if pn := vx.Catch(func() { next, err = p.Process(cur) }); pn != nil {
			return stages, "panic in " + passName(p)
		}
		if err != nil {
			return stages, "error in " + passName(p)
		}
		cur = next
		snap(passName(p))
	}
	return stages, ""
}

func crashPass(lang string, c testCase) string {
	_, stopped := stagewise(lang, c)
	if strings.HasPrefix(stopped, "panic in ") {
		return strings.TrimPrefix(stopped, "panic in ")
	}
	return "unknown"
}

// since: the first stage from which the kind is present without interruption
// until the end of the chain.
func since(stages []stage, kind string) (first string, later []string) {
	i := len(stages) - 1
	if i < 0 || !stages[i].Kinds[kind] {
		return "?", nil
	}
	for i > 0 && stages[i-1].Kinds[kind] {
		i--
	}
	for _, s := range stages[i+1:] {
		later = append(later, s.Name)
	}
	return stages[i].Name, later
}

func chainNames(lang string) []string {
	var out []string
	for _, p := range newLanguage(lang).CompilerPasses() {
		out = append(out, passName(p))
	}
	return out
}

type detail struct {
	Lang  string     `json:"lang"`
	Place string     `json:"place"`
	Term  irgen.Term `json:"term"`
}

// report registers the failures of one (case, language) execution.
func report(r *vx.Run, lang string, c testCase, o outcome, verbose bool) {
	switch o.Status {
	case "crash":
		pass := crashPass(lang, c)
		r.Fail(vx.Failure{
			Kind: fmt.Sprintf("%s: crash:%s %s", lang, pass, normalise(o.Err)), Witness: c.witness(), Size: c.size(), Parents: c.parents(),
			What:   fmt.Sprintf("the %s chain panics in %s on %s: %s (C04's business; recorded, not judged)", lang, pass, c.witness(), o.Err),
			Detail: detail{lang, c.Place, c.Term},
		})
		return
	case "error":
		return
	}
	if len(o.Viol) == 0 {
		return
	}
	stages, stopped := stagewise(lang, c)
	if stopped != "" {
		vx.Fatalf("%s/%s: ContextForLanguage succeeded but the pass-by-pass run stopped (%s)", lang, c.witness(), stopped)
	}
	end := stages[len(stages)-1].Kinds
	for _, v := range o.Viol {
		if !end[v.kind(lang)] {
			vx.Fatalf("%s/%s: pass-by-pass run does not reproduce %q (non-determinism in the chain or the harness)", lang, c.witness(), v.kind(lang))
		}
	}
	for _, v := range o.Viol {
		first, later := since(stages, v.kind(lang))
		kind := v.kind(lang)
		if !v.isName() {
			kind += " [since " + first + "]"
		}
		var hist string
		if first == "input" {
			hist = "the construct is in this position in the input and no pass of the chain removes it"
		} else {
			hist = "the construct first sits in this position after " + first
			if len(later) > 0 {
				hist += " and the later passes (" + strings.Join(later, ", ") + ") leave it there"
			} else {
				hist += ", the last pass of the chain"
			}
		}
		what := fmt.Sprintf("%s chain on %s: %s — %s at %s; %s (clause established by %s)", lang, c.witness(), v.Clause, v.Pos, v.Where, hist, responsible[v.Clause])
		if verbose {
			fmt.Println("  ", what)
		}
		r.Fail(vx.Failure{Kind: kind, Witness: c.witness(), Size: c.size(), Parents: c.parents(), What: what, Detail: detail{lang, c.Place, c.Term}})
	}
}

// ---------------------------------------------------------------- main

type caseStats struct {
	inputHas map[string]bool // clause -> the object Root of the input contains the construct
	out      [5]outcome
}

func main() {
	r := vx.Start("C06")

	if r.Replay != "" {
		_, witness, raw := r.ReplayFile()
		var d detail
		if err := json.Unmarshal(raw, &d); err != nil {
			vx.Fatalf("replay detail: %v", err)
		}
		c := testCase{d.Place, d.Term}
		if c.witness() != witness {
			vx.Fatalf("replay: detail rebuilds %q, file says %q", c.witness(), witness)
		}
		fmt.Printf("replay %s under the %s chain %v\n", witness, d.Lang, chainNames(d.Lang))
		o := runChain(d.Lang, c)
		fmt.Printf("   outcome: %s %s\n", o.Status, o.Err)
		report(r, d.Lang, c, o, true)
		if r.NumFailures() > 0 {
			fmt.Printf("VIOLATION property=C06 replay=%s\n", r.Replay)
			os.Exit(1)
		}
		fmt.Println("replay: the normal form holds on this tree")
		os.Exit(0)
	}

	// Budget guard only (quick needs ~3 CPU-minutes = ~15 s on 16 idle cores,
	// thorough ~25 CPU-minutes); generous because the machine is shared and a run
	// cut short is no longer exhaustive. Hitting it ends with exit 0, exhaustive:false.
	deadline := time.Now().Add(10 * time.Minute)
	if r.Thorough() {
		deadline = time.Now().Add(40 * time.Minute)
	}
	ts := terms(r.Thorough())
	var cases []testCase
	for _, t := range ts {
		for _, p := range places {
			cases = append(cases, testCase{p, t})
		}
		if t.Depth() <= multiDepth(r.Thorough()) {
			for _, p := range multiPlaces {
				cases = append(cases, testCase{p, t})
			}
		}
	}
	if r.Seed != 0 { // VERIF_SEED only permutes the work order
		n := len(cases)
		step := r.Seed%n | 1
		for step > 1 && gcd(step, n) != 1 {
			step += 2
		}
		perm := make([]testCase, n)
		for i := range cases {
			perm[i] = cases[(i*step)%n]
		}
		cases = perm
	}

	stats := make([]caseStats, len(cases))
	done := make([]bool, len(cases))
	var wg sync.WaitGroup
	var next atomic.Int64
	for w := 0; w < runtime.NumCPU(); w++ {
		wg.Add(1)
		go func() {
			defer wg.Done()
			for {
				i := int(next.Add(1)) - 1
				if i >= len(cases) || time.Now().After(deadline) {
					return
				}
				c := cases[i]
				st := caseStats{inputHas: map[string]bool{}}
				for _, v := range evaluate(c.spec().Build(), inputObjects) {
					if strings.HasPrefix(v.Where, "Root") {
						st.inputHas[v.Clause] = true
					}
				}
				for li, lang := range langs {
					o := runChain(lang, c)
					report(r, lang, c, o, false)
					st.out[li] = o
				}
				stats[i] = st
				done[i] = true
			}
		}()
	}
	wg.Wait()

	// aggregate sequentially (deterministic)
	completed := 0
	perLang := map[string]map[string]int{}
	repaired := map[string]map[string]int{}
	failing := map[string]map[string]int{}
	inputHad := map[string]int{}
	errClasses := map[string]int{}
	outcomeClasses := map[string]bool{}
	for _, l := range langs {
		perLang[l] = map[string]int{}
		repaired[l] = map[string]int{}
		failing[l] = map[string]int{}
	}
	var samples []any
	sampleAt := map[int]bool{}
	for _, d := range []int{1 << 30, 200, 50, 20, 8, 4, 2, 1} { // spread over the size-ordered list
		sampleAt[(len(cases)-1)/d] = true
	}
	for i, st := range stats {
		if !done[i] {
			continue
		}
		completed++
		for cl := range st.inputHas {
			inputHad[cl]++
		}
		sm := map[string]any{"case": cases[i].witness()}
		for li, l := range langs {
			o := st.out[li]
			perLang[l][o.Status]++
			sig := o.Status
			if o.Status == "error" {
				errClasses[l+": "+normalise(o.Err)]++
			}
			if o.Status == "judged" {
				has := map[string]bool{}
				for _, v := range o.Viol {
					has[v.Clause] = true
					sig += "|" + v.kind(l)
				}
				for cl := range clausesOf[l] {
					if has[cl] {
						failing[l][cl]++
					} else if st.inputHas[cl] {
						repaired[l][cl]++
					}
				}
			}
			outcomeClasses[l+"/"+sig] = true
			sm[l] = sig
		}
		if sampleAt[i] {
			samples = append(samples, sm)
		}
	}
	multiCases := 0
	for i, c := range cases {
		if done[i] && isMulti(c.Place) {
			multiCases++
		}
	}
	exhaustive := completed == len(cases)
	chains := map[string][]string{}
	for _, l := range langs {
		chains[l] = chainNames(l)
	}
	depth := "3"
	if r.Thorough() {
		depth = "3 with all leaves, 4 with the reduced inner leaf set"
	}
	cov := map[string]any{
		"states":                        completed,
		"transitions":                   executions.Load(),
		"traces_validated_against_impl": executions.Load(),
		"samples":                       samples,
		"exhaustive":                    exhaustive,
		"terms":                         len(ts),
		"placements":                    places,
		"multi_occurrence_placements":   multiPlaces,
		"multi_occurrence_term_depth":   multiDepth(r.Thorough()),
		"multi_occurrence_cases":        multiCases,
		"cases_enumerated":              len(cases),
		"cases_completed":               completed,
		"languages":                     langs,
		"chains":                        chains,
		"per_language_outcomes":         perLang,
		"chain_error_classes":           errClasses,
		"input_root_contained_construct_of_clause": inputHad,
		"per_language_clause_repaired_by_chain":    repaired,
		"per_language_clause_failing_cases":        failing,
		"distinct_outcome_classes":                 len(outcomeClasses),
		"explanation":                              "every type term of grammar I (depth " + depth + "; plus depth 4 over {string,int64,enum} and towers of depth 5 (quick) / 6 (thorough) over {string}; enums as member sequences of length 1..3 over {plain, numeric, negative} names, string- and int-typed; unions of plain/digit-only string constants in every order; every term up to depth 3 (thorough: and depth 4 over {string,int64,enum}) also with the branch lists of its unions/intersections reversed (null | T, U | T); flat 3-branch unions with null in all orders, maps with non-string index types, two-field structs; closed under one-step reductions) is placed as the type of object Root, as a required and as an optional field of struct Root, as a required field next to an alias object Al = ref(p.S), and (terms up to the multi-occurrence depth) TWICE or THRICE in one schema with different requiredness in both orders: two/three fields of Root, or Root and a second object Zed (package p with support objects S,T,E,A,K); for each and each language the real codegen.Pipeline.ContextForLanguage is executed (language.CompilerPasses() through compiler.Passes.Process); chain errors are counted and not judged, panics are recorded as crash:<pass>; on success the resulting schemas are judged by a complete walker (fields, array elements, map index and value, union and intersection branches, enum member types); failing cases are re-run pass by pass to name the pass after which the construct sits where it ends up",
	}
	if !exhaustive {
		cov["completed_bound"] = fmt.Sprintf("%d of %d cases in work order (smallest first) before the internal deadline", completed, len(cases))
	}
	r.Finish(cov, []string{
		"default pipeline configuration: no common passes, no final passes (Pipeline{}), builders off; languages built with their zero Config (CompilerPasses() does not read it)",
		"hints (Type.Hints) are annotations, not types: a DisjunctionType kept as a hint is not a remaining union",
		"member-name rules are judged on enums that are named objects; PHP 'sanitised' = non-empty and not starting with a digit once characters outside [A-Za-z0-9_] are ignored; Go 'prefixed' = object name, compared case-insensitively on alphanumerics",
		"a chain that returns an error refuses the input: counted per language, not judged",
	})
}

func gcd(a, b int) int {
	for b != 0 {
		a, b = b, a%b
	}
	return a
}
