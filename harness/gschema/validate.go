//go:build verif

package gschema

import (
	"bytes"
	"encoding/json"
	"fmt"
	"strings"

	"cuelang.org/go/cue"
	"cuelang.org/go/cue/cuecontext"
	"github.com/getkin/kin-openapi/openapi3"
	jsv "github.com/santhosh-tekuri/jsonschema/v5"
)

// Validator decides whether the reference validator of one input format
// accepts a JSON document as a value of the schema's root object.
type Validator func(doc string) bool

// Validators builds one reference validator per format that can express the
// schema (DESIGN §4.1): santhosh-tekuri/jsonschema on the JSON Schema
// rendering, kin-openapi's VisitJSON on the OpenAPI rendering, cue
// Unify+Validate(Concrete) on the CUE rendering. Formats that cannot express
// the schema are reported in skipped.
func (s Schema) Validators() (map[string]Validator, map[string]string) {
	out := map[string]Validator{}
	skipped := map[string]string{}
	for _, f := range Formats {
		r, err := s.Render(f)
		if err != nil {
			skipped[f] = err.Error()
			continue
		}
		v, err := newValidator(f, r.Main, s.Objs[0].Name)
		if err != nil {
			skipped[f] = "reference validator cannot load the rendering: " + err.Error()
			continue
		}
		out[f] = v
	}
	return out, skipped
}

func decodeNumber(doc string) (any, error) {
	dec := json.NewDecoder(strings.NewReader(doc))
	dec.UseNumber()
	var v any
	err := dec.Decode(&v)
	return v, err
}

func newValidator(format, text, root string) (Validator, error) {
	switch format {
	case "jsonschema":
		c := jsv.NewCompiler()
		c.Draft = jsv.Draft7
		if err := c.AddResource("p.json", strings.NewReader(text)); err != nil {
			return nil, err
		}
		sch, err := c.Compile("p.json")
		if err != nil {
			return nil, err
		}
		return func(doc string) bool {
			v, err := decodeNumber(doc)
			if err != nil {
				return false
			}
			return sch.Validate(v) == nil
		}, nil
	case "openapi":
		loader := openapi3.NewLoader()
		doc, err := loader.LoadFromData([]byte(text))
		if err != nil {
			return nil, err
		}
		ref := doc.Components.Schemas[root]
		if ref == nil || ref.Value == nil {
			return nil, fmt.Errorf("component %s not found", root)
		}
		return func(d string) bool {
			var v any
			if err := json.Unmarshal([]byte(d), &v); err != nil {
				return false
			}
			return ref.Value.VisitJSON(v) == nil
		}, nil
	case "cue":
		ctx := cuecontext.New()
		val := ctx.CompileString(text)
		if val.Err() != nil {
			return nil, val.Err()
		}
		rootV := val.LookupPath(cue.ParsePath(root))
		if rootV.Err() != nil {
			return nil, rootV.Err()
		}
		return func(d string) bool {
			dv := ctx.CompileBytes(bytes.TrimSpace([]byte(d)))
			if dv.Err() != nil {
				return false
			}
			u := rootV.Unify(dv)
			return u.Validate(cue.Concrete(true)) == nil
		}, nil
	}
	return nil, fmt.Errorf("unknown format")
}

// Accepted reports whether every available validator accepts doc; agree is
// false when they disagree (the document is then excluded, never reported).
func Accepted(vals map[string]Validator, doc string) (accepted, agree bool) {
	yes, no := 0, 0
	for _, f := range Formats {
		if v, ok := vals[f]; ok {
			if v(doc) {
				yes++
			} else {
				no++
			}
		}
	}
	return yes > 0 && no == 0, yes == 0 || no == 0
}
