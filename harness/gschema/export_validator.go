//go:build verif

package gschema

// NewValidator builds the reference validator of one format from an already
// rendered schema text (for harnesses that post-process a rendering, e.g. to
// use other numeric bounds than grammar G's); root is the entry-point object.
func NewValidator(format, text, root string) (Validator, error) {
	return newValidator(format, text, root)
}
