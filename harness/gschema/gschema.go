//go:build verif

// Package gschema is grammar G of DESIGN.md §3.1: abstract input schemas
// (objects whose types are irgen.Terms) with one renderer per input format
// (JSON Schema draft-07, OpenAPI 3.0, CUE) and the document alphabets of §3.3.
package gschema

import (
	"encoding/json"
	"fmt"
	"sort"
	"strings"

	"github.com/grafana/cog/verifx/irgen"
)

type Term = irgen.Term

// Obj is one named definition.
type Obj struct {
	Name string
	T    Term
}

// Schema is one input document defining package "p". Objs[0] is the root /
// entry point. References are irgen refs "p.<Name>".
type Schema struct {
	Objs []Obj
}

const Pkg = "p"

func (s Schema) String() string {
	var parts []string
	for _, o := range s.Objs {
		parts = append(parts, o.Name+"="+o.T.String())
	}
	return strings.Join(parts, ";")
}

func (s Schema) Size() int {
	n := 0
	for _, o := range s.Objs {
		n += o.T.Size()
	}
	return n
}

func (s Schema) Lookup(name string) (Term, bool) {
	for _, o := range s.Objs {
		if o.Name == name {
			return o.T, true
		}
	}
	return Term{}, false
}

// Formats in the order they are tried.
var Formats = []string{"jsonschema", "openapi", "cue"}

// Term.Hints values (beyond irgen's 0..2 hint counts) that select, for JSON Schema, the
// spelling of a nullable scalar as a type list instead of `oneOf: [T, {type: null}]`.
const (
	TypeListNullLast  = 10 // "type": [T, "null"]
	TypeListNullFirst = 11 // "type": ["null", T]
)

// Unsupported is returned by Render when a format cannot express a construct.
type Unsupported struct{ Format, Construct string }

func (u Unsupported) Error() string { return u.Format + " cannot express " + u.Construct }

// Rendered is a set of files (relative names) plus the pipeline input stanza that loads them.
type Rendered struct {
	Files map[string]string
	// InputYAML is the `- <kind>: {...}` line of the pipeline `inputs:` list, with %DIR% for the directory holding Files.
	InputYAML string
	// Main is the schema document itself (for the reference validators).
	Main string
}

func refName(a string) string {
	if i := strings.Index(a, "."); i >= 0 {
		return a[i+1:]
	}
	return a
}

func walk(t Term, f func(Term)) {
	f(t)
	for _, s := range t.Sub {
		walk(s, f)
	}
}

func (s Schema) check(format string) error {
	var err error
	bad := func(c string) {
		if err == nil {
			err = Unsupported{format, c}
		}
	}
	for _, o := range s.Objs {
		walk(o.T, func(t Term) {
			switch t.K {
			case "scalar":
				if _, isPattern := stringPattern(t); isPattern {
					break // every format can express a string matching a regular expression
				}
				switch t.A {
				case "string", "bool", "int64", "float64", "any", "datetime", "null":
				case "int32", "float32":
					if format == "jsonschema" {
						bad("scalar width " + t.A)
					}
				case "bytes":
					if format != "cue" {
						bad("bytes")
					}
				default:
					if format != "cue" {
						bad("scalar width " + t.A)
					}
				}
				if t.A == "datetime" && format == "cue" {
					bad("date-time string")
				}
				if strings.HasSuffix(t.Default, "@branch") && format == "cue" {
					bad("default declared on the non-null branch (CUE has one default per disjunction)")
				}
			case "const":
				if format == "openapi" && !strings.HasPrefix(t.A, "disc:") {
					bad("const")
				}
			case "constref":
				if format != "cue" {
					bad("constant reference")
				}
			case "inter":
				if format == "cue" {
					bad("allOf intersection")
				}
			case "slot":
				bad("composable slot")
			case "map":
				if t.Sub[0].String() != "string" {
					bad("map with a non-string index")
				}
				if format == "cue" && t.Sub[1].K == "enum" && t.Sub[1].A == "int" {
					bad("anonymous numeric enum as a map value (needs a field attribute)")
				}
			case "array":
				if format == "cue" && t.Sub[0].K == "enum" && t.Sub[0].A == "int" {
					bad("anonymous numeric enum as an array element (needs a field attribute)")
				}
			case "disj":
				if t.Disc && format == "openapi" {
					// rendered with an explicit discriminator object; the
					// branch structs carry a single-member enum instead of a const
				}
			}
			if format == "cue" && t.K == "enum" && t.A == "int" && t.Nullable {
				bad("nullable anonymous numeric enum")
			}
			if format == "cue" && t.K == "disj" {
				for _, b := range t.Sub {
					if b.K == "enum" && b.A == "int" {
						bad("numeric enum as a union branch")
					}
				}
			}
			if t.Nullable && format == "openapi" && t.K == "ref" {
				bad("nullable reference")
			}
			if t.Hints >= TypeListNullLast {
				// spelling of a nullable scalar as a JSON Schema type list
				if format != "jsonschema" || !t.Nullable || t.K != "scalar" {
					bad("type list")
				}
			} else if t.Hints > 0 {
				bad("hints")
			}
		})
	}
	return err
}

// ---- JSON Schema / OpenAPI -------------------------------------------------------------

type om struct {
	keys []string
	vals map[string]any
}

func newOM() *om { return &om{vals: map[string]any{}} }
func (m *om) set(k string, v any) *om {
	if _, ok := m.vals[k]; !ok {
		m.keys = append(m.keys, k)
	}
	m.vals[k] = v
	return m
}
func (m *om) get(k string) (any, bool) { v, ok := m.vals[k]; return v, ok }
func (m *om) MarshalJSON() ([]byte, error) {
	var b strings.Builder
	b.WriteByte('{')
	for i, k := range m.keys {
		if i > 0 {
			b.WriteByte(',')
		}
		kb, _ := json.Marshal(k)
		vb, err := json.Marshal(m.vals[k])
		if err != nil {
			return nil, err
		}
		b.Write(kb)
		b.WriteByte(':')
		b.Write(vb)
	}
	b.WriteByte('}')
	return []byte(b.String()), nil
}

func (s Schema) jsonTree(t Term, format, refPrefix string) *om {
	m := newOM()
	oapi := format == "openapi"
	switch t.K {
	case "scalar":
		if pat, ok := stringPattern(t); ok {
			m.set("type", "string").set("pattern", pat)
			break
		}
		switch t.A {
		case "string", "datetime":
			m.set("type", "string")
			if t.A == "datetime" {
				m.set("format", "date-time")
			}
			if t.Constr {
				m.set("minLength", 1).set("maxLength", 3)
			}
		case "bool":
			m.set("type", "boolean")
		case "any":
		case "null":
			m.set("type", "null")
		case "float32", "float64":
			m.set("type", "number")
			if oapi {
				m.set("format", map[string]string{"float32": "float", "float64": "double"}[t.A])
			}
			if t.Constr {
				m.set("minimum", json.Number("0.5"))
			}
		default: // integers
			m.set("type", "integer")
			if oapi {
				m.set("format", t.A)
			}
			if t.Constr {
				if oapi {
					m.set("minimum", 0).set("maximum", 5).set("exclusiveMaximum", true)
				} else {
					m.set("minimum", 0).set("exclusiveMaximum", 5)
				}
			}
		}
	case "const":
		switch t.A {
		case "str":
			m.set("type", "string").set("const", "k")
		case "int":
			m.set("type", "integer").set("const", 7)
		case "bool":
			m.set("type", "boolean").set("const", true)
		case "float":
			m.set("type", "number").set("const", json.Number("1.5"))
		default: // "disc:<value>": a discriminator constant
			if lit, isFloat, ok := numConst(t); ok {
				typ := "integer"
				if isFloat {
					typ = "number"
				}
				m.set("type", typ).set("const", json.Number(lit))
				break
			}
			v := strings.TrimPrefix(t.A, "disc:")
			if oapi {
				m.set("type", "string").set("enum", []any{v})
			} else {
				m.set("type", "string").set("const", v)
			}
		}
	case "enum":
		if ms := bigEnumMembers(t); ms != nil {
			m.set("type", "integer").set("enum", ms)
		} else if t.A == "int" {
			m.set("type", "integer").set("enum", []any{1, 2})
		} else {
			m.set("type", "string").set("enum", []any{"a", "b"})
		}
	case "ref":
		m.set("$ref", refPrefix+refName(t.A))
	case "array":
		m.set("type", "array").set("items", s.jsonTree(t.Sub[0], format, refPrefix))
	case "map":
		m.set("type", "object").set("additionalProperties", s.jsonTree(t.Sub[1], format, refPrefix))
	case "disj", "inter":
		var bs []any
		for _, b := range t.Sub {
			if oapi && b.A == "null" {
				continue
			}
			bs = append(bs, s.jsonTree(b, format, refPrefix))
		}
		key := "oneOf"
		if t.K == "inter" {
			key = "allOf"
		} else if t.A == "anyOf" {
			// a disjunction whose branches overlap (`const | type`): only anyOf accepts the shared values
			key = "anyOf"
		}
		m.set(key, bs)
		if t.Disc && oapi {
			m.set("discriminator", map[string]any{"propertyName": "kind"})
		}
		if oapi {
			for _, b := range t.Sub {
				if b.A == "null" {
					m.set("nullable", true)
				}
			}
		}
	case "struct":
		m.set("type", "object")
		props := newOM()
		var req []any
		for i, f := range t.Fields {
			ft := t.Sub[i]
			// the discriminator constant of union branches
			props.set(f.Name, s.jsonTree(ft, format, refPrefix))
			if f.Required {
				req = append(req, f.Name)
			}
		}
		m.set("properties", props)
		if len(req) > 0 {
			m.set("required", req)
		}
	default:
		panic("gschema: jsonTree " + t.K)
	}
	// a default flavour ending in "@branch" is declared on the non-null branch
	// of a nullable type instead of on the union (both are legal JSON Schema)
	onBranch := strings.HasSuffix(t.Default, "@branch") && t.Nullable && !oapi
	if onBranch {
		m.set("default", s.DefaultValue(t))
	}
	if t.Nullable && !oapi && t.Hints >= TypeListNullLast && t.K == "scalar" {
		if typ, ok := m.get("type"); ok {
			if t.Hints == TypeListNullFirst {
				m.set("type", []any{"null", typ})
			} else {
				m.set("type", []any{typ, "null"})
			}
		}
	} else if t.Nullable {
		if oapi {
			m.set("nullable", true)
		} else {
			inner := m
			m = newOM()
			m.set("oneOf", []any{inner, map[string]any{"type": "null"}})
		}
	}
	if t.Default != "" && !onBranch {
		m.set("default", s.DefaultValue(t))
	}
	return m
}

// DefaultValue is the JSON value declared as default of t.
func (s Schema) DefaultValue(t Term) any {
	if strings.HasSuffix(t.Default, "@branch") {
		c := t
		c.Default = strings.TrimSuffix(t.Default, "@branch")
		return s.DefaultValue(c)
	}
	if v, ok := hookDefault(s, t); ok {
		return v
	}
	switch t.Default {
	case "scalar":
		switch t.K {
		case "scalar":
			switch t.A {
			case "string", "any":
				return "d"
			case "datetime":
				return "2024-01-02T03:04:05Z"
			case "bool":
				return true
			case "float32", "float64":
				return json.Number("1.5")
			default:
				return json.Number("1")
			}
		case "enum":
			if t.A == "big" {
				return json.Number(BigEnumMembers[1])
			}
			if t.A == "int" {
				return json.Number("2")
			}
			return "b"
		case "ref": // reference to an enum
			return "b"
		}
		return "d"
	case "list":
		return []any{"x", "y"}
	case "map":
		return map[string]any{"a": "x"}
	}
	return nil
}

func mustJSON(v any) string {
	b, err := json.MarshalIndent(v, "", " ")
	if err != nil {
		panic(err)
	}
	return string(b)
}

func (s Schema) renderJSONSchema() (Rendered, error) {
	if err := s.check("jsonschema"); err != nil {
		return Rendered{}, err
	}
	defs := newOM()
	for _, o := range s.Objs {
		defs.set(o.Name, s.jsonTree(o.T, "jsonschema", "#/definitions/"))
	}
	doc := newOM()
	doc.set("$schema", "http://json-schema.org/draft-07/schema#")
	doc.set("$ref", "#/definitions/"+s.Objs[0].Name)
	doc.set("definitions", defs)
	text := mustJSON(doc)
	return Rendered{Files: map[string]string{"p.json": text}, Main: text, InputYAML: "- jsonschema: {path: '%DIR%/p.json', package: p}"}, nil
}

func (s Schema) renderOpenAPI() (Rendered, error) {
	if err := s.check("openapi"); err != nil {
		return Rendered{}, err
	}
	comps := newOM()
	for _, o := range s.Objs {
		comps.set(o.Name, s.jsonTree(o.T, "openapi", "#/components/schemas/"))
	}
	doc := newOM()
	doc.set("openapi", "3.0.0").set("info", map[string]any{"title": "t", "version": "1"}).set("paths", map[string]any{})
	doc.set("components", map[string]any{"schemas": comps})
	text := mustJSON(doc)
	return Rendered{Files: map[string]string{"p.json": text}, Main: text, InputYAML: "- openapi: {path: '%DIR%/p.json', package: p}"}, nil
}

// ---- CUE ---------------------------------------------------------------------------------

func cueLit(v any) string {
	switch x := v.(type) {
	case string:
		return fmt.Sprintf("%q", x)
	case json.Number:
		return x.String()
	case bool:
		return fmt.Sprint(x)
	case []any:
		var p []string
		for _, e := range x {
			p = append(p, cueLit(e))
		}
		return "[" + strings.Join(p, ", ") + "]"
	case map[string]any:
		var keys []string
		for k := range x {
			keys = append(keys, k)
		}
		sort.Strings(keys)
		var p []string
		for _, k := range keys {
			p = append(p, k+": "+cueLit(x[k]))
		}
		return "{" + strings.Join(p, ", ") + "}"
	}
	return fmt.Sprint(v)
}

func (s Schema) cueType(t Term, usesStrings *bool) string {
	var out string
	switch t.K {
	case "scalar":
		if pat, ok := stringPattern(t); ok {
			out = fmt.Sprintf("string & =~%q", pat)
			break
		}
		switch t.A {
		case "string":
			out = "string"
			if t.Constr {
				*usesStrings = true
				out = "string & strings.MinRunes(1) & strings.MaxRunes(3)"
			}
		case "bool":
			out = "bool"
		case "any":
			out = "_"
		case "null":
			out = "null"
		case "bytes":
			out = "bytes"
		case "float32", "float64":
			out = t.A
			if t.Constr {
				out += " & >=0.5"
			}
		default:
			out = t.A
			if t.Constr {
				out += " & >=0 & <5"
			}
		}
	case "const":
		switch t.A {
		case "str":
			out = `"k"`
		case "int":
			out = "7"
		case "bool":
			out = "true"
		case "float":
			out = "1.5"
		default:
			if lit, _, ok := numConst(t); ok {
				out = lit
			} else {
				out = fmt.Sprintf("%q", strings.TrimPrefix(t.A, "disc:"))
			}
		}
	case "enum":
		// the default of an enum is marked on the member itself
		star := ""
		if t.Default != "" {
			star = "*"
		}
		if t.A == "big" {
			out = BigEnumMembers[0] + " | " + star + BigEnumMembers[1]
		} else if t.A == "int" {
			out = "1 | " + star + "2"
		} else {
			out = `"a" | ` + star + `"b"`
		}
		if t.Nullable {
			out += " | null"
		}
		return out
	case "ref":
		out = refName(t.A)
	case "constref":
		out = refName(t.A) + ` & "a"`
	case "array":
		out = "[..." + s.cueParen(t.Sub[0], usesStrings) + "]"
	case "map":
		out = "{[string]: " + s.cueType(t.Sub[1], usesStrings) + "}"
	case "disj":
		var p []string
		for _, b := range t.Sub {
			p = append(p, s.cueParen(b, usesStrings))
		}
		out = strings.Join(p, " | ")
	case "struct":
		var p []string
		for i, f := range t.Fields {
			n := f.Name
			if !f.Required {
				n += "?"
			}
			p = append(p, n+": "+s.cueType(t.Sub[i], usesStrings)+cueEnumAttr(t.Sub[i]))
		}
		out = "{" + strings.Join(p, ", ") + "}"
	default:
		panic("gschema: cueType " + t.K)
	}
	if t.Nullable {
		out = "(" + out + ") | null"
		if t.K == "scalar" && !t.Constr || t.K == "ref" || t.K == "const" {
			out = strings.TrimSuffix(strings.TrimPrefix(out, "("), ") | null") + " | null"
		}
	}
	if o, ok := hookCueDefault(s, t, out); t.Default != "" && ok {
		out = o
	} else if t.Default != "" {
		d := cueLit(s.DefaultValue(t))
		if t.Nullable {
			// the idiom cog's CUE front-end reads: one flat disjunction `T | null | *d`
			out = out + " | *" + d
		} else if strings.Contains(out, "|") || strings.Contains(out, "&") {
			out = "(" + out + ") | *" + d
		} else {
			out = out + " | *" + d
		}
	}
	return out
}

// cueEnumAttr is the field attribute cog needs to accept a numeric enum.
func cueEnumAttr(t Term) string {
	if t.K == "enum" && (t.A == "int" || t.A == "big") {
		return ` @cog(kind="enum",memberNames="one|two")`
	}
	return ""
}

func (s Schema) cueParen(t Term, usesStrings *bool) string {
	o := s.cueType(t, usesStrings)
	if strings.Contains(o, "|") || strings.Contains(o, "&") {
		return "(" + o + ")"
	}
	return o
}

func (s Schema) renderCUE() (Rendered, error) {
	if err := s.check("cue"); err != nil {
		return Rendered{}, err
	}
	uses := false
	var body strings.Builder
	for _, o := range s.Objs {
		fmt.Fprintf(&body, "%s: %s%s\n", o.Name, s.cueType(o.T, &uses), cueEnumAttr(o.T))
	}
	head := "package p\n\n"
	if uses {
		head += "import \"strings\"\n\n"
	}
	text := head + body.String()
	return Rendered{Files: map[string]string{"p/schema.cue": text}, Main: text, InputYAML: "- cue: {entrypoint: '%DIR%/p'}"}, nil
}

func (s Schema) Render(format string) (Rendered, error) {
	switch format {
	case "jsonschema":
		return s.renderJSONSchema()
	case "openapi":
		return s.renderOpenAPI()
	case "cue":
		return s.renderCUE()
	}
	return Rendered{}, fmt.Errorf("unknown format %s", format)
}

// Reductions of a schema: reduce one object's type, or drop an unreferenced non-root object.
func (s Schema) Reductions() []Schema {
	var out []Schema
	used := map[string]bool{}
	for _, o := range s.Objs {
		walk(o.T, func(t Term) {
			if t.K == "ref" || t.K == "constref" {
				used[refName(t.A)] = true
			}
		})
	}
	for i, o := range s.Objs {
		if i > 0 && !used[o.Name] {
			out = append(out, Schema{Objs: append(append([]Obj{}, s.Objs[:i]...), s.Objs[i+1:]...)})
		}
	}
	for i, o := range s.Objs {
		reds := o.T.Reductions()
		reds = append(reds, leafResets(o.T)...)
		for _, r := range reds {
			objs := append([]Obj{}, s.Objs...)
			objs[i].T = r
			out = append(out, Schema{Objs: objs}.canonical())
		}
	}
	return out
}

// canonical renames the only field of a single-field root struct to "f" (the
// name the enumeration uses), so that dropping a field of a two-field schema
// lands on an enumerated schema.
func (s Schema) canonical() Schema {
	if len(s.Objs) == 0 {
		return s
	}
	// drop the objects nothing refers to any more (transitively)
	for changed := true; changed; {
		changed = false
		used := map[string]bool{}
		for _, o := range s.Objs {
			walk(o.T, func(t Term) {
				if t.K == "ref" || t.K == "constref" {
					used[refName(t.A)] = true
				}
			})
		}
		for i, o := range s.Objs {
			if i > 0 && !used[o.Name] {
				s = Schema{Objs: append(append([]Obj{}, s.Objs[:i]...), s.Objs[i+1:]...)}
				changed = true
				break
			}
		}
	}
	t := s.Objs[0].T
	if t.K == "struct" && len(t.Fields) == 1 && t.Fields[0].Name != "f" {
		objs := append([]Obj{}, s.Objs...)
		t.Fields = []irgen.Field{{Name: "f", Required: t.Fields[0].Required}}
		objs[0].T = t
		return Schema{Objs: objs}
	}
	return s
}

// leafResets replaces one leaf of t (constant, enum, reference, sized or
// constrained scalar) by the base leaf `string`, and drops a default or a
// nullable flag on it: the attribute resets of DESIGN §5.1.
func leafResets(t Term) []Term {
	var out []Term
	if len(t.Sub) == 0 {
		if !(t.K == "scalar" && t.A == "string" && !t.Constr && !t.Nullable && t.Default == "") && t.A != "null" {
			out = append(out, irgen.S("string"))
			if t.Nullable || t.Default != "" {
				c := t
				c.Nullable, c.Default, c.Hints = false, "", 0
				out = append(out, c)
			}
			if t.Hints >= TypeListNullLast {
				c := t
				c.Hints = 0
				out = append(out, c)
			}
		}
		return out
	}
	for i, sub := range t.Sub {
		if t.K == "map" && i == 0 {
			continue
		}
		for _, r := range leafResets(sub) {
			c := t
			c.Sub = append([]Term{}, t.Sub...)
			c.Sub[i] = r
			out = append(out, c)
		}
	}
	return out
}
