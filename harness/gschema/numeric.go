//go:build verif

package gschema

import (
	"encoding/json"
	"strings"
)

// Numeric flavours with caller-chosen literals (boundary values):
//
//	const "num:<literal>"  a typed numeric constant (integer when the literal has no '.', 'e' or 'E', else number)
//	enum  "big"            an integer enum whose members are beyond 2^53: 9007199254740993, 9223372036854775807
//	                       (member names one|two; a default selects the second member)

// BigEnumMembers are the members of the enum flavour "big".
var BigEnumMembers = []string{"9007199254740993", "9223372036854775807"}

func numConst(t Term) (lit string, isFloat, ok bool) {
	if t.K != "const" || !strings.HasPrefix(t.A, "num:") {
		return "", false, false
	}
	lit = strings.TrimPrefix(t.A, "num:")
	return lit, strings.ContainsAny(lit, ".eE"), true
}

func bigEnumMembers(t Term) []any {
	if t.K != "enum" || t.A != "big" {
		return nil
	}
	return []any{json.Number(BigEnumMembers[0]), json.Number(BigEnumMembers[1])}
}
