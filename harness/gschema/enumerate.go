//go:build verif

package gschema

import (
	"sort"

	"github.com/grafana/cog/verifx/irgen"
)

func ref(n string) Term { return irgen.Ref(Pkg + "." + n) }

// Support objects references can point to. S and T carry a constant
// discriminator field `kind`.
func support() map[string]Term {
	return map[string]Term{
		"S": irgen.StructN([]irgen.Field{{Name: "kind", Required: true}, {Name: "x", Required: false}}, []Term{{K: "const", A: "disc:s"}, irgen.S("string")}),
		"T": irgen.StructN([]irgen.Field{{Name: "kind", Required: true}, {Name: "y", Required: false}}, []Term{{K: "const", A: "disc:t"}, irgen.S("int64")}),
		"E": irgen.Enum("str"),
		"N": irgen.Enum("int"),
		"A": irgen.S("string"),
		"K": irgen.Const("str"),
		// named collections (aliases of a list / a map / a list of structs)
		"L":  irgen.Array(irgen.S("string")),
		"M":  irgen.Map(irgen.S("int64")),
		"LS": irgen.Array(ref("S")),
		"P": irgen.StructN([]irgen.Field{{Name: "n", Required: true}, {Name: "s", Required: false}}, []Term{{K: "scalar", A: "int64", Constr: true}, {K: "scalar", A: "string", Constr: true}}),
	}
}

// WithSupport builds a schema from the given objects plus the support objects they reference.
func WithSupport(objs ...Obj) Schema {
	sup := support()
	have := map[string]bool{}
	for _, o := range objs {
		have[o.Name] = true
	}
	for changed := true; changed; {
		changed = false
		used := map[string]bool{}
		for _, o := range objs {
			walk(o.T, func(t Term) {
				if t.K == "ref" || t.K == "constref" {
					used[refName(t.A)] = true
				}
			})
		}
		names := make([]string, 0, len(used))
		for n := range used {
			names = append(names, n)
		}
		sort.Strings(names)
		for _, n := range names {
			if t, ok := sup[n]; ok && !have[n] {
				objs = append(objs, Obj{Name: n, T: t})
				have[n] = true
				changed = true
			}
		}
	}
	return Schema{Objs: objs}
}

// Field1 is Root{f: t} (required or optional).
func Field1(t Term, required bool) Schema {
	return WithSupport(Obj{Name: "Root", T: irgen.Struct1("f", required, t)})
}

func c(t Term) Term { t.Constr = true; return t }

// CoreLeaves are the leaf types every format can express (or skips explicitly).
func CoreLeaves() []Term {
	return []Term{
		irgen.S("string"), c(irgen.S("string")), irgen.S("datetime"), irgen.Const("str"), irgen.Enum("str"),
		irgen.S("bool"),
		irgen.S("int64"), c(irgen.S("int64")), irgen.Const("int"), irgen.Enum("int"),
		irgen.S("float64"), c(irgen.S("float64")),
		irgen.S("any"),
		ref("S"), ref("E"), ref("A"), ref("K"), ref("P"),
		ref("L"), ref("M"), ref("LS"),
	}
}

// WidthLeaves are the sized scalars (CUE all; OpenAPI int32/float32).
func WidthLeaves() []Term {
	var out []Term
	for _, k := range []string{"int8", "uint8", "int16", "uint16", "int32", "uint32", "uint64", "float32"} {
		out = append(out, irgen.S(k))
	}
	return out
}

func discUnion() Term { return Term{K: "disj", Sub: []Term{ref("S"), ref("T")}, Disc: true} }

func scalarUnions() []Term {
	return []Term{
		irgen.Disj(irgen.S("string"), irgen.S("bool")),
		irgen.Disj(irgen.S("string"), irgen.S("int64")),
		irgen.Disj(irgen.S("string"), irgen.Array(irgen.S("string"))),
	}
}

func withDefault(t Term) (Term, bool) {
	switch t.K {
	case "scalar":
		if t.A == "any" || t.Constr && t.A == "string" {
			// "d" violates no constraint of string[1..3]; keep it
		}
		t.Default = "scalar"
		return t, true
	case "enum":
		t.Default = "scalar"
		return t, true
	case "ref":
		if t.A == Pkg+".E" {
			t.Default = "scalar"
			return t, true
		}
	case "array":
		if t.Sub[0].String() == "string" {
			t.Default = "list"
			return t, true
		}
	}
	return t, false
}

// Enumerate returns the complete set of schemas of the tier, smallest first,
// without duplicates. The set is downward closed for the reductions that stay
// inside grammar G (Schema.Reductions members outside it are evaluated on demand).
func Enumerate(thorough bool) []Schema {
	seen := map[string]bool{}
	var out []Schema
	add := func(s Schema) {
		k := s.String()
		if !seen[k] {
			seen[k] = true
			out = append(out, s)
		}
	}
	leaves := append(CoreLeaves(), WidthLeaves()...)
	core := CoreLeaves()
	// size 1: one field of every leaf type, required and optional
	for _, l := range leaves {
		add(Field1(l, true))
		add(Field1(l, false))
	}
	// defaults and nullables
	for _, l := range core {
		if d, ok := withDefault(l); ok {
			add(Field1(d, true))
			add(Field1(d, false))
		}
		if l.K != "const" {
			add(Field1(irgen.Nullable(l), true))
			add(Field1(irgen.Nullable(l), false))
		}
	}
	// size 2: one wrapper over every core leaf
	wrap := []func(Term) Term{
		irgen.Array, irgen.Map,
		func(t Term) Term { return irgen.Struct1("g", true, t) },
		func(t Term) Term { return irgen.Struct1("g", false, t) },
	}
	for _, l := range core {
		for _, w := range wrap {
			add(Field1(w(l), true))
			add(Field1(w(l), false))
		}
	}
	if d, ok := withDefault(irgen.Array(irgen.S("string"))); ok {
		add(Field1(d, false))
	}
	// unions
	for _, u := range append(scalarUnions(), discUnion()) {
		add(Field1(u, true))
		add(Field1(u, false))
	}
	add(WithSupport(Obj{Name: "Root", T: irgen.Struct1("u", true, ref("U"))}, Obj{Name: "U", T: discUnion()}))
	// recursion through an optional field / an array
	add(WithSupport(Obj{Name: "Root", T: irgen.StructN([]irgen.Field{{Name: "v", Required: true}, {Name: "next", Required: false}}, []Term{irgen.S("string"), ref("Root")})}))
	add(WithSupport(Obj{Name: "Root", T: irgen.StructN([]irgen.Field{{Name: "children", Required: false}}, []Term{irgen.Array(ref("Root"))})}))
	// naming collisions the code's shortcuts can hit
	add(WithSupport(Obj{Name: "Root", T: irgen.StructN([]irgen.Field{{Name: "a", Required: true}, {Name: "b", Required: true}},
		[]Term{irgen.Struct1("e", true, irgen.Enum("str")), irgen.Struct1("e", true, irgen.Enum("str"))})}))
	add(WithSupport(Obj{Name: "Root", T: irgen.StructN([]irgen.Field{{Name: "u", Required: true}, {Name: "o", Required: false}},
		[]Term{irgen.Disj(irgen.S("string"), irgen.S("bool")), ref("StringOrBool")})}, Obj{Name: "StringOrBool", T: irgen.Struct1("json", true, irgen.S("string"))}))
	// pairs: two fields over representative types (required x optional)
	rep := []Term{irgen.S("string"), c(irgen.S("int64")), irgen.Enum("str"), irgen.Array(irgen.S("string")), irgen.Map(irgen.S("int64")), ref("S"), irgen.S("any"), irgen.S("bool")}
	if thorough {
		rep = append(rep, irgen.S("float64"), irgen.Const("str"), ref("E"), irgen.Nullable(irgen.S("string")), discUnion())
	}
	for _, a := range rep {
		for _, b := range rep {
			add(WithSupport(Obj{Name: "Root", T: irgen.StructN([]irgen.Field{{Name: "a", Required: true}, {Name: "b", Required: false}}, []Term{a, b})}))
		}
	}
	// nullable containers (required and optional): `[...T] | null`, `{[string]: T} | null`
	for _, t := range []Term{irgen.Array(irgen.S("string")), irgen.Map(irgen.S("string")), irgen.Array(ref("S")), irgen.Map(irgen.S("int64"))} {
		add(Field1(irgen.Nullable(t), true))
		add(Field1(irgen.Nullable(t), false))
	}
	// a default declared on the non-null branch of a nullable scalar
	for _, l := range []Term{irgen.S("string"), irgen.S("int64"), irgen.S("bool")} {
		d := irgen.Nullable(l)
		d.Default = "scalar@branch"
		add(Field1(d, true))
		add(Field1(d, false))
		// ... and on the union itself (`T | null | *d` in CUE)
		d.Default = "scalar"
		add(Field1(d, true))
		add(Field1(d, false))
	}
	// the same shape twice in one object with different requiredness (passes that
	// name or cache generated types see a second occurrence), in both orders
	for _, u := range append(scalarUnions(), discUnion(), irgen.Enum("str"), irgen.Struct1("g", true, irgen.S("string"))) {
		for _, order := range [][2]bool{{true, false}, {false, true}} {
			add(WithSupport(Obj{Name: "Root", T: irgen.StructN([]irgen.Field{{Name: "a", Required: order[0]}, {Name: "b", Required: order[1]}}, []Term{u, u})}))
		}
	}
	// two wrappers (container of containers) over two leaves: the shapes where
	// generated decoders nest their loops
	for _, l := range []Term{irgen.S("string"), ref("S")} {
		for _, t := range []Term{irgen.Map(irgen.Array(l)), irgen.Array(irgen.Map(l)), irgen.Array(irgen.Array(l)), irgen.Map(irgen.Map(l))} {
			add(Field1(t, true))
			add(Field1(t, false))
		}
	}
	if thorough {
		// size 3: two wrappers over a reduced leaf set
		inner := []Term{irgen.S("string"), c(irgen.S("int64")), irgen.Enum("str"), ref("S"), ref("P"), irgen.S("any")}
		for _, l := range inner {
			for _, w1 := range wrap {
				for _, w2 := range wrap {
					add(Field1(w2(w1(l)), true))
					add(Field1(w2(w1(l)), false))
				}
			}
			add(Field1(irgen.Array(irgen.Nullable(l)), false))
			add(Field1(irgen.Map(irgen.Nullable(l)), false))
		}
		for _, u := range append(scalarUnions(), discUnion()) {
			add(Field1(irgen.Array(u), false))
			add(Field1(irgen.Map(u), false))
			add(Field1(irgen.Struct1("g", false, u), false))
		}
		for _, l := range WidthLeaves() {
			add(Field1(irgen.Array(l), false))
			add(Field1(c(l), true))
		}
	}
	sort.SliceStable(out, func(i, j int) bool { return out[i].Size() < out[j].Size() })
	return out
}
