//go:build verif

package gschema

// Hooks that let a harness add default flavours (values of Term.Default beyond
// "scalar" | "list" | "map") without touching the renderers. Both are nil by
// default, in which case rendering is exactly what it was before they existed.

// DefaultHook, when set, is asked first for the JSON value declared as the
// default of t (ok=false falls back to the built-in table of DefaultValue).
var DefaultHook func(s Schema, t Term) (v any, ok bool)

// CueDefaultHook, when set, may replace the CUE rendering of "type with
// default" (built-in: `<type> | *<literal>`); typ is the rendering of t without
// its default. ok=false keeps the built-in idiom.
var CueDefaultHook func(s Schema, t Term, typ string) (out string, ok bool)

func hookDefault(s Schema, t Term) (any, bool) {
	if DefaultHook == nil {
		return nil, false
	}
	return DefaultHook(s, t)
}

func hookCueDefault(s Schema, t Term, typ string) (string, bool) {
	if CueDefaultHook == nil {
		return "", false
	}
	return CueDefaultHook(s, t, typ)
}
