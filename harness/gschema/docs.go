//go:build verif

package gschema

import (
	"encoding/json"
	"sort"
)

// Absent marks an optional property left out of a document.
type absent struct{}

var Absent = absent{}

func num(s string) json.Number { return json.Number(s) }

var intRanges = map[string][2]string{
	"int8": {"-128", "127"}, "uint8": {"0", "255"}, "int16": {"-32768", "32767"}, "uint16": {"0", "65535"},
	"int32": {"-2147483648", "2147483647"}, "uint32": {"0", "4294967295"},
	"int64": {"-9223372036854775808", "9223372036854775807"}, "uint64": {"0", "18446744073709551615"},
}

var above = map[string]string{"int8": "128", "uint8": "256", "int16": "32768", "uint16": "65536", "int32": "2147483648", "uint32": "4294967296"}

// Values returns the value alphabet of t (DESIGN §3.3), simplest first: valid
// and invalid candidates alike; validity is decided by the reference
// validators, never here. budget bounds recursion through references.
func (s Schema) Values(t Term, budget int) []any {
	var out []any
	switch t.K {
	case "scalar":
		if pat, ok := stringPattern(t); ok {
			out = patternValues(pat)
			break
		}
		switch t.A {
		case "string":
			if t.Constr {
				out = []any{"a", "abc", "héé", "", "abcd"}
			} else {
				out = []any{"a", "", "héllo"}
			}
		case "datetime":
			out = []any{"2024-01-02T03:04:05Z", "2024-01-02T03:04:05.123+02:00"}
		case "bool":
			out = []any{true, false}
		case "any":
			out = []any{num("1"), "s", map[string]any{"k": []any{num("1")}}, true, nil}
		case "null":
			out = []any{nil}
		case "bytes":
			out = []any{"YQ=="}
		case "float32", "float64":
			out = []any{num("0.5"), num("0"), num("-1.5"), num("1e21"), num("16777217"), num("2")}
			if t.Constr {
				out = append(out, num("0.25"))
			}
		default:
			r := intRanges[t.A]
			out = []any{num("1"), num("0"), num("-1"), num("4"), num("5"), num(r[0]), num(r[1])}
			if a, ok := above[t.A]; ok {
				out = append(out, num(a))
			}
			if t.A == "int64" || t.A == "uint64" {
				out = append(out, num("9007199254740993"))
			}
		}
	case "const":
		switch t.A {
		case "str":
			out = []any{"k", "other"}
		case "int":
			out = []any{num("7"), num("8")}
		case "bool":
			out = []any{true, false}
		case "float":
			out = []any{num("1.5"), num("2.5")}
		default:
			if lit, _, ok := numConst(t); ok {
				out = []any{num(lit), num("8")}
			} else {
				out = []any{t.A[len("disc:"):], "other"}
			}
		}
	case "enum":
		if t.A == "big" {
			out = []any{num(BigEnumMembers[0]), num(BigEnumMembers[1]), num("3")}
		} else if t.A == "int" {
			out = []any{num("1"), num("2"), num("3")}
		} else {
			out = []any{"a", "b", "zzz"}
		}
	case "constref":
		out = []any{"a", "b"}
	case "ref":
		target, ok := s.Lookup(refName(t.A))
		if !ok || budget <= 0 {
			return nil
		}
		out = s.Values(target, budget-1)
	case "array":
		elems := s.Values(t.Sub[0], budget)
		out = append(out, []any{})
		for _, e := range elems {
			out = append(out, []any{e})
		}
		if len(elems) >= 2 {
			out = append(out, []any{elems[0], elems[1]})
		}
		if len(elems) >= 3 {
			out = append(out, []any{elems[1], elems[2]}, []any{elems[2], elems[1], elems[2]})
		}
	case "map":
		elems := s.Values(t.Sub[1], budget)
		out = append(out, map[string]any{})
		for _, e := range elems {
			out = append(out, map[string]any{"k": e})
		}
		if len(elems) >= 2 {
			out = append(out, map[string]any{"k": elems[0], "l": elems[1]})
		}
		if len(elems) >= 3 {
			// two non-trivial entries (a decoder sharing state between entries shows here)
			out = append(out, map[string]any{"k": elems[1], "l": elems[2]}, map[string]any{"k": elems[2], "l": elems[1], "m": elems[2]})
		}
	case "disj", "inter":
		for _, b := range t.Sub {
			out = append(out, s.Values(b, budget)...)
		}
	case "struct":
		per := make([][]any, len(t.Fields))
		limit := 1 << 30
		if len(t.Fields) > 1 {
			limit = 4 // keep the product of multi-field structs small
		}
		for i, f := range t.Fields {
			vals := s.Values(t.Sub[i], budget)
			if len(vals) > limit {
				vals = vals[:limit]
			}
			if !f.Required || t.Sub[i].K == "ref" && len(vals) == 0 {
				vals = append(vals, Absent)
			}
			per[i] = vals
		}
		docs := []map[string]any{{}}
		for i, f := range t.Fields {
			var next []map[string]any
			for _, d := range docs {
				for _, v := range per[i] {
					nd := make(map[string]any, len(d)+1)
					for k, x := range d {
						nd[k] = x
					}
					if v != Absent {
						nd[f.Name] = v
					}
					next = append(next, nd)
				}
			}
			docs = next
		}
		for _, d := range docs {
			out = append(out, d)
		}
	}
	if t.Nullable {
		out = append(out, nil)
	}
	return dedup(out)
}

func dedup(vals []any) []any {
	seen := map[string]bool{}
	var out []any
	for _, v := range vals {
		b, _ := json.Marshal(v)
		if !seen[string(b)] {
			seen[string(b)] = true
			out = append(out, v)
		}
	}
	return out
}

// Documents returns the candidate documents of the root object.
func (s Schema) Documents() []string {
	vals := s.Values(s.Objs[0].T, 2)
	out := make([]string, 0, len(vals))
	for _, v := range vals {
		b, _ := json.Marshal(v)
		out = append(out, string(b))
	}
	return out
}

// CanonJSON re-encodes a JSON text with sorted keys and numbers normalised to
// exact decimals, for JSON-equality comparisons (1 == 1.0, key order free).
func CanonJSON(text string) (string, error) {
	dec := json.NewDecoder(stringsReader(text))
	dec.UseNumber()
	var v any
	if err := dec.Decode(&v); err != nil {
		return "", err
	}
	return canonValue(v), nil
}

func canonValue(v any) string {
	switch x := v.(type) {
	case map[string]any:
		keys := make([]string, 0, len(x))
		for k := range x {
			keys = append(keys, k)
		}
		sort.Strings(keys)
		s := "{"
		for i, k := range keys {
			if i > 0 {
				s += ","
			}
			kb, _ := json.Marshal(k)
			s += string(kb) + ":" + canonValue(x[k])
		}
		return s + "}"
	case []any:
		s := "["
		for i, e := range x {
			if i > 0 {
				s += ","
			}
			s += canonValue(e)
		}
		return s + "]"
	case json.Number:
		return canonNumber(string(x))
	default:
		b, _ := json.Marshal(x)
		return string(b)
	}
}
