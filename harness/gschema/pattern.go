//go:build verif

package gschema

import "strings"

// A string constrained by a regular expression: scalar kind "pattern:<regex>"
// (JSON Schema / OpenAPI `pattern`, CUE `string & =~"<regex>"`).

func stringPattern(t Term) (string, bool) {
	if t.K != "scalar" || !strings.HasPrefix(t.A, "pattern:") {
		return "", false
	}
	return strings.TrimPrefix(t.A, "pattern:"), true
}

// patternValues: candidates around the literal core of the expression (the
// reference validators decide which ones match).
func patternValues(pat string) []any {
	core := strings.TrimSuffix(strings.TrimPrefix(pat, "^"), "$")
	return []any{core, core + "c", "x" + core, "x" + core + "y", strings.NewReplacer(".", "x", "+", "", "*", "").Replace(core), ""}
}
