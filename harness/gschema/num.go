//go:build verif

package gschema

import (
	"math/big"
	"strings"
)

func stringsReader(s string) *strings.Reader { return strings.NewReader(s) }

// canonNumber renders a JSON number as an exact rational in lowest terms.
func canonNumber(s string) string {
	r, ok := new(big.Rat).SetString(s)
	if !ok {
		return s
	}
	if r.IsInt() {
		return r.Num().String()
	}
	return r.RatString()
}
