//go:build verif

package refl

import (
	"fmt"
	"reflect"
	"unsafe"
)

// Filler builds values of arbitrary types in which every declared field is
// non-zero (DESIGN §3.2), so that a field added to an IR node tomorrow is
// covered without touching the harness.
type Filler struct {
	// MaxRec bounds how many times one struct type may appear on the
	// construction stack (recursion through ast.Type).
	MaxRec int
	// Any returns the value for an interface{} slot, given the enclosing
	// struct type name and field name ("" for container elements).
	Any func(structName, field string) any
	// OnlyField, when >= 0, applies to the *root* struct only: just that field
	// is filled, the others stay zero ("one-hot" values).
	OnlyField int

	depth    int
	stack    map[reflect.Type]int
	contains map[[2]reflect.Type]bool
	counter  int
}

func (f *Filler) Fill(t reflect.Type) reflect.Value {
	f.stack = map[reflect.Type]int{}
	if f.contains == nil {
		f.contains = map[[2]reflect.Type]bool{}
	}
	f.counter = 0
	f.depth = 0
	v := reflect.New(t).Elem()
	f.fill(v, "", "", true)
	return v
}

// reaches reports whether a value of type t can (transitively) hold a value of type target.
func (f *Filler) reaches(t, target reflect.Type, seen map[reflect.Type]bool) bool {
	if t == target {
		return true
	}
	if seen[t] {
		return false
	}
	seen[t] = true
	switch t.Kind() {
	case reflect.Ptr, reflect.Slice, reflect.Array:
		return f.reaches(t.Elem(), target, seen)
	case reflect.Map:
		return f.reaches(t.Key(), target, seen) || f.reaches(t.Elem(), target, seen)
	case reflect.Struct:
		for i := 0; i < t.NumField(); i++ {
			if f.reaches(t.Field(i).Type, target, seen) {
				return true
			}
		}
	}
	return false
}

// saturated reports whether filling a value of type t would re-enter a struct
// type that is already at its recursion limit.
func (f *Filler) saturated(t reflect.Type) bool {
	for st, n := range f.stack {
		if n < f.MaxRec {
			continue
		}
		key := [2]reflect.Type{t, st}
		r, ok := f.contains[key]
		if !ok {
			r = f.reaches(t, st, map[reflect.Type]bool{})
			f.contains[key] = r
		}
		if r {
			return true
		}
	}
	return false
}

// width: two elements in the collections held directly by the root struct, one deeper.
func (f *Filler) width() int {
	if f.depth <= 1 {
		return 2
	}
	return 1
}

func (f *Filler) next() int { f.counter++; return f.counter }

func (f *Filler) fill(v reflect.Value, structName, field string, root bool) {
	v = access(v)
	switch v.Kind() {
	case reflect.Bool:
		v.SetBool(true)
	case reflect.Int, reflect.Int8, reflect.Int16, reflect.Int32, reflect.Int64:
		v.SetInt(int64(f.next()%100 + 1))
	case reflect.Uint, reflect.Uint8, reflect.Uint16, reflect.Uint32, reflect.Uint64:
		v.SetUint(uint64(f.next()%100 + 1))
	case reflect.Float32, reflect.Float64:
		v.SetFloat(float64(f.next()) + 0.5)
	case reflect.String:
		v.SetString(fmt.Sprintf("%s%d", field, f.next()))
	case reflect.Slice:
		if f.saturated(v.Type().Elem()) {
			return
		}
		n := f.width()
		s := reflect.MakeSlice(v.Type(), n, n+1) // spare capacity on purpose: aliasing of the tail is visible to Locations
		for i := 0; i < n; i++ {
			f.fill(s.Index(i), structName, field, false)
		}
		v.Set(s)
	case reflect.Map:
		if f.saturated(v.Type().Elem()) {
			return
		}
		m := reflect.MakeMap(v.Type())
		for i := 0; i < f.width(); i++ {
			k := reflect.New(v.Type().Key()).Elem()
			f.fill(k, structName, field+"Key", false)
			e := reflect.New(v.Type().Elem()).Elem()
			f.fill(e, structName, field, false)
			m.SetMapIndex(k, e)
		}
		v.Set(m)
	case reflect.Ptr:
		if f.saturated(v.Type().Elem()) {
			return
		}
		p := reflect.New(v.Type().Elem())
		f.fill(p.Elem(), structName, field, false)
		v.Set(p)
	case reflect.Interface:
		if f.Any != nil {
			if a := f.Any(structName, field); a != nil {
				v.Set(reflect.ValueOf(a))
			}
		}
	case reflect.Struct:
		t := v.Type()
		f.stack[t]++
		f.depth++
		defer func() { f.stack[t]--; f.depth-- }()
		if _, ok := t.FieldByName("records"); ok && t.NumField() == 2 {
			f.fillOrderedMap(v)
			return
		}
		for i := 0; i < t.NumField(); i++ {
			if root && f.OnlyField >= 0 && i != f.OnlyField {
				continue
			}
			f.fill(v.Field(i), t.Name(), t.Field(i).Name, false)
		}
	}
}

// fillOrderedMap keeps the (records, order) invariant of orderedmap.Map.
func (f *Filler) fillOrderedMap(v reflect.Value) {
	rec := access(v.FieldByName("records"))
	ord := access(v.FieldByName("order"))
	m := reflect.MakeMap(rec.Type())
	o := reflect.MakeSlice(ord.Type(), 0, 3)
	if !f.saturated(rec.Type().Elem()) {
		for i := 0; i < f.width(); i++ {
			k := reflect.New(rec.Type().Key()).Elem()
			f.fill(k, "Map", "key", false)
			e := reflect.New(rec.Type().Elem()).Elem()
			f.fill(e, "Map", "value", false)
			m.SetMapIndex(k, e)
			o = reflect.Append(o, k)
		}
	}
	rec.Set(m)
	ord.Set(o)
}

var _ = unsafe.Pointer(nil)
