//go:build verif

// Package refl holds the reflection utilities shared by the IR-level
// harnesses: canonical snapshots (including unexported fields), structural
// comparison with nil ≍ empty, enumeration of mutable locations, single
// location mutation, and a filler that builds values with every field set.
package refl

import (
	"fmt"
	"reflect"
	"sort"
	"strings"
	"unsafe"
)

// access returns a usable (readable/settable when addressable) view of v even
// when it was reached through an unexported field.
func access(v reflect.Value) reflect.Value {
	if v.CanInterface() || !v.CanAddr() {
		return v
	}
	return reflect.NewAt(v.Type(), unsafe.Pointer(v.UnsafeAddr())).Elem()
}

// Canon renders the complete value graph deterministically. nil and empty
// slices/maps are rendered identically; dynamic types of interface values are
// part of the rendering.
func Canon(v any) string {
	var b strings.Builder
	canon(&b, reflect.ValueOf(v), 0)
	return b.String()
}

func canon(b *strings.Builder, v reflect.Value, depth int) {
	if depth > 60 {
		b.WriteString("<deep>")
		return
	}
	if !v.IsValid() {
		b.WriteString("nil")
		return
	}
	switch v.Kind() {
	case reflect.Bool:
		fmt.Fprintf(b, "%v", v.Bool())
	case reflect.Int, reflect.Int8, reflect.Int16, reflect.Int32, reflect.Int64:
		fmt.Fprintf(b, "%d", v.Int())
	case reflect.Uint, reflect.Uint8, reflect.Uint16, reflect.Uint32, reflect.Uint64, reflect.Uintptr:
		fmt.Fprintf(b, "%d", v.Uint())
	case reflect.Float32, reflect.Float64:
		fmt.Fprintf(b, "%v", v.Float())
	case reflect.String:
		fmt.Fprintf(b, "%q", v.String())
	case reflect.Slice, reflect.Array:
		b.WriteByte('[')
		for i := 0; i < v.Len(); i++ {
			if i > 0 {
				b.WriteByte(',')
			}
			canon(b, v.Index(i), depth+1)
		}
		b.WriteByte(']')
	case reflect.Map:
		type kv struct{ k, v string }
		var kvs []kv
		it := v.MapRange()
		for it.Next() {
			var kb, vb strings.Builder
			canon(&kb, it.Key(), depth+1)
			canon(&vb, it.Value(), depth+1)
			kvs = append(kvs, kv{kb.String(), vb.String()})
		}
		sort.Slice(kvs, func(i, j int) bool { return kvs[i].k < kvs[j].k })
		b.WriteByte('{')
		for i, e := range kvs {
			if i > 0 {
				b.WriteByte(',')
			}
			b.WriteString(e.k + ":" + e.v)
		}
		b.WriteByte('}')
	case reflect.Ptr:
		if v.IsNil() {
			b.WriteString("nil")
			return
		}
		b.WriteByte('&')
		canon(b, v.Elem(), depth+1)
	case reflect.Interface:
		if v.IsNil() {
			b.WriteString("nil")
			return
		}
		e := v.Elem()
		b.WriteString("(" + e.Type().String() + ")")
		canon(b, e, depth+1)
	case reflect.Struct:
		b.WriteString("{")
		for i := 0; i < v.NumField(); i++ {
			if i > 0 {
				b.WriteByte(',')
			}
			b.WriteString(v.Type().Field(i).Name + "=")
			canon(b, v.Field(i), depth+1)
		}
		b.WriteString("}")
	case reflect.Func, reflect.Chan, reflect.UnsafePointer:
		if v.IsNil() {
			b.WriteString("nil")
		} else {
			b.WriteString("<" + v.Kind().String() + ">")
		}
	default:
		b.WriteString("<?>")
	}
}

// Diff returns the paths at which a and b differ structurally (nil ≍ empty
// for slices and maps). At most max paths are returned.
func Diff(a, b any, max int) []string {
	var out []string
	diff(reflect.ValueOf(a), reflect.ValueOf(b), "", &out, max, 0)
	return out
}

func isEmptyColl(v reflect.Value) bool {
	if !v.IsValid() {
		return true
	}
	switch v.Kind() {
	case reflect.Slice, reflect.Map:
		return v.Len() == 0
	case reflect.Ptr, reflect.Interface:
		return v.IsNil()
	}
	return false
}

func diff(a, b reflect.Value, path string, out *[]string, max, depth int) {
	if len(*out) >= max || depth > 60 {
		return
	}
	add := func(msg string) { *out = append(*out, path+": "+msg) }
	if !a.IsValid() || !b.IsValid() {
		if a.IsValid() != b.IsValid() && !(isEmptyColl(a) && isEmptyColl(b)) {
			add("one side is absent")
		}
		return
	}
	if a.Type() != b.Type() {
		add(fmt.Sprintf("type %s vs %s", a.Type(), b.Type()))
		return
	}
	switch a.Kind() {
	case reflect.Slice, reflect.Array:
		if a.Len() != b.Len() {
			add(fmt.Sprintf("len %d vs %d", a.Len(), b.Len()))
			return
		}
		for i := 0; i < a.Len(); i++ {
			diff(a.Index(i), b.Index(i), fmt.Sprintf("%s[%d]", path, i), out, max, depth+1)
		}
	case reflect.Map:
		if a.Len() != b.Len() {
			add(fmt.Sprintf("len %d vs %d", a.Len(), b.Len()))
			return
		}
		it := a.MapRange()
		for it.Next() {
			bv := b.MapIndex(it.Key())
			if !bv.IsValid() {
				add(fmt.Sprintf("key %v missing", it.Key()))
				continue
			}
			diff(it.Value(), bv, fmt.Sprintf("%s[%v]", path, it.Key()), out, max, depth+1)
		}
	case reflect.Ptr:
		if a.IsNil() || b.IsNil() {
			if a.IsNil() != b.IsNil() {
				add("nil vs non-nil pointer")
			}
			return
		}
		diff(a.Elem(), b.Elem(), path, out, max, depth+1)
	case reflect.Interface:
		if a.IsNil() || b.IsNil() {
			if a.IsNil() != b.IsNil() {
				add("nil vs non-nil interface")
			}
			return
		}
		diff(a.Elem(), b.Elem(), path+".("+a.Elem().Type().String()+")", out, max, depth+1)
	case reflect.Struct:
		for i := 0; i < a.NumField(); i++ {
			diff(a.Field(i), b.Field(i), path+"/"+a.Type().Name()+"."+a.Type().Field(i).Name, out, max, depth+1)
		}
	default:
		var ca, cb strings.Builder
		canon(&ca, a, depth)
		canon(&cb, b, depth)
		if ca.String() != cb.String() {
			add(fmt.Sprintf("%s vs %s", ca.String(), cb.String()))
		}
	}
}

// Locations returns every mutable memory location reachable from v: pointer
// targets, map headers and each slot of every slice backing array (up to its
// capacity), keyed by address with the path that reaches it.
func Locations(v any) map[uintptr]string {
	out := map[uintptr]string{}
	rv := reflect.ValueOf(v)
	locations(rv, "", out, 0)
	return out
}

func locations(v reflect.Value, path string, out map[uintptr]string, depth int) {
	if !v.IsValid() || depth > 60 {
		return
	}
	switch v.Kind() {
	case reflect.Slice:
		if v.IsNil() || v.Cap() == 0 {
			return
		}
		full := v.Slice(0, v.Cap())
		es := v.Type().Elem().Size()
		for i := 0; i < full.Len(); i++ {
			if es > 0 {
				out[full.Pointer()+uintptr(i)*es] = fmt.Sprintf("%s[%d]", path, i)
			}
		}
		for i := 0; i < v.Len(); i++ {
			locations(v.Index(i), fmt.Sprintf("%s[*]", path), out, depth+1)
		}
	case reflect.Array:
		for i := 0; i < v.Len(); i++ {
			locations(v.Index(i), fmt.Sprintf("%s[*]", path), out, depth+1)
		}
	case reflect.Map:
		if v.IsNil() {
			return
		}
		out[v.Pointer()] = path + "{map}"
		it := v.MapRange()
		for it.Next() {
			locations(it.Value(), path+"[*]", out, depth+1)
		}
	case reflect.Ptr:
		if v.IsNil() {
			return
		}
		out[v.Pointer()] = path + "{ptr}"
		locations(v.Elem(), path, out, depth+1)
	case reflect.Interface:
		if v.IsNil() {
			return
		}
		locations(v.Elem(), path+".("+v.Elem().Type().String()+")", out, depth+1)
	case reflect.Struct:
		for i := 0; i < v.NumField(); i++ {
			locations(v.Field(i), path+"/"+v.Type().Name()+"."+v.Type().Field(i).Name, out, depth+1)
		}
	}
}

// Shared lists the locations reachable from both a and b.
func Shared(a, b any) []string {
	la, lb := Locations(a), Locations(b)
	var out []string
	seen := map[string]bool{}
	for addr, p := range la {
		if q, ok := lb[addr]; ok {
			s := p
			if q != p {
				s = p + " ~ " + q
			}
			// abstract concrete indexes so that one defect gives one entry
			s = abstractIdx(s)
			if !seen[s] {
				seen[s] = true
				out = append(out, s)
			}
		}
	}
	sort.Strings(out)
	return out
}

func abstractIdx(s string) string {
	var b strings.Builder
	in := false
	for _, r := range s {
		switch {
		case r == '[':
			in = true
			b.WriteString("[*")
		case r == ']':
			in = false
			b.WriteRune(r)
		case in:
		default:
			b.WriteRune(r)
		}
	}
	return b.String()
}

// AbstractPath abstracts indexes and map keys in a path.
func AbstractPath(s string) string { return abstractIdx(s) }

// Culprit returns the part of a typed path after the last struct boundary
// ("/Struct.Field..."), with indexes abstracted: the innermost declared field
// the observation is about. One defect in one copy method therefore gives the
// same culprit wherever the node is embedded.
func Culprit(path string) string {
	if i := strings.LastIndex(path, "/"); i >= 0 {
		path = path[i+1:]
	}
	return abstractIdx(path)
}

// MutateNth walks the value pointed to by root (a pointer) in deterministic
// order and mutates the n-th mutable location (a basic leaf, an interface
// slot, or a map which gets one more entry / one changed entry). It returns
// the path mutated and false when n is beyond the last location.
func MutateNth(root any, n int) (string, bool) {
	rv := reflect.ValueOf(root)
	if rv.Kind() != reflect.Ptr || rv.IsNil() {
		panic("MutateNth needs a non-nil pointer")
	}
	cnt := 0
	path, ok := mutate(rv.Elem(), "", &cnt, n, 0)
	return path, ok
}

func mutate(v reflect.Value, path string, cnt *int, n int, depth int) (string, bool) {
	if !v.IsValid() || depth > 60 {
		return "", false
	}
	v = access(v)
	hit := func() bool {
		h := *cnt == n
		*cnt++
		return h
	}
	switch v.Kind() {
	case reflect.Bool:
		if v.CanSet() && hit() {
			v.SetBool(!v.Bool())
			return path, true
		}
	case reflect.Int, reflect.Int8, reflect.Int16, reflect.Int32, reflect.Int64:
		if v.CanSet() && hit() {
			v.SetInt(v.Int() ^ 1)
			return path, true
		}
	case reflect.Uint, reflect.Uint8, reflect.Uint16, reflect.Uint32, reflect.Uint64:
		if v.CanSet() && hit() {
			v.SetUint(v.Uint() ^ 1)
			return path, true
		}
	case reflect.Float32, reflect.Float64:
		if v.CanSet() && hit() {
			v.SetFloat(v.Float() + 1)
			return path, true
		}
	case reflect.String:
		if v.CanSet() && hit() {
			v.SetString(v.String() + "~mutated")
			return path, true
		}
	case reflect.Slice, reflect.Array:
		for i := 0; i < v.Len(); i++ {
			if p, ok := mutate(v.Index(i), fmt.Sprintf("%s[%d]", path, i), cnt, n, depth+1); ok {
				return p, true
			}
		}
	case reflect.Map:
		if v.IsNil() {
			return "", false
		}
		// (1) change / replace each existing entry, (2) add one entry
		keys := v.MapKeys()
		sort.Slice(keys, func(i, j int) bool { return fmt.Sprint(keys[i]) < fmt.Sprint(keys[j]) })
		for _, k := range keys {
			ev := v.MapIndex(k)
			// mutate inside the element when it is a reference-like value
			switch ev.Kind() {
			case reflect.Ptr, reflect.Slice, reflect.Map, reflect.Interface:
				if p, ok := mutate(ev, fmt.Sprintf("%s[%v]", path, k), cnt, n, depth+1); ok {
					return p, true
				}
			}
			if hit() {
				v.SetMapIndex(k, reflect.Value{}) // delete the entry
				return fmt.Sprintf("%s[%v]{delete}", path, k), true
			}
		}
		if hit() {
			nk := reflect.New(v.Type().Key()).Elem()
			if nk.Kind() == reflect.String {
				nk.SetString("zz_verif_added")
			}
			v.SetMapIndex(nk, reflect.Zero(v.Type().Elem()))
			return path + "{insert}", true
		}
	case reflect.Ptr:
		if v.IsNil() {
			return "", false
		}
		return mutate(v.Elem(), path, cnt, n, depth+1)
	case reflect.Interface:
		if v.IsNil() {
			return "", false
		}
		e := v.Elem()
		switch e.Kind() {
		case reflect.Slice, reflect.Map, reflect.Ptr:
			if p, ok := mutate(e, path+".("+e.Type().String()+")", cnt, n, depth+1); ok {
				return p, true
			}
		}
		if v.CanSet() && hit() {
			v.Set(reflect.ValueOf("~mutated-interface"))
			return path + "{iface}", true
		}
	case reflect.Struct:
		for i := 0; i < v.NumField(); i++ {
			if p, ok := mutate(v.Field(i), path+"/"+v.Type().Name()+"."+v.Type().Field(i).Name, cnt, n, depth+1); ok {
				return p, true
			}
		}
	}
	return "", false
}

// CountMutable returns the number of locations MutateNth can reach in *root*
// without mutating anything (it works on a throw-away walk).
func CountMutable(root any) int {
	rv := reflect.ValueOf(root)
	cnt := 0
	mutate(rv.Elem(), "", &cnt, -1, 0)
	return cnt
}
