#!/bin/bash
# Runs the pinned suite (guard OFF: no tag, no overlay) in a tree; prints pass/fail counts.
# usage: baseline.sh [repo-dir]
export GOPROXY=off GOSUMDB=off GOTOOLCHAIN=local
d="${1:-/repo}"
cd "$d" || exit 2
tmp=$(mktemp /var/tmp/verif-baseline.XXXXXX)
trap 'rm -f "$tmp"' EXIT
(go build -mod=mod ./... 2>&1 && go test -mod=mod -json -vet=off -count=1 -timeout 25m ./... 2>&1) > "$tmp"
python3 - "$tmp" <<'PY'
import sys, json
p=f=0; fails=[]
for l in open(sys.argv[1]):
    try: e=json.loads(l)
    except Exception:
        if l.strip(): print("RAW:", l[:200].rstrip())
        continue
    if e.get("Test") and e.get("Action") in ("pass","fail"):
        if e["Action"]=="pass": p+=1
        else: f+=1; fails.append(e["Package"]+"::"+e["Test"])
print(f"baseline: pass={p} fail={f}")
for x in fails[:20]: print("  FAIL", x)
sys.exit(1 if f or p==0 else 0)
PY
