#!/bin/bash
# Apply a change to a scratch copy of /repo, run the pinned suite there, then run checks against it.
# usage: mutant.sh <name> <patch.diff | sed:FILE:EXPR> -- C01 C02 ...   (env TIER=quick|thorough, SKIP_BASELINE=1)
set -u
ROOT="$(cd "$(dirname "${BASH_SOURCE[0]}")/.." && pwd)"
name="$1"; change="$2"; shift 2; [ "${1:-}" = "--" ] && shift
d=/var/tmp/verif-mut.$name.$$
rm -rf "$d"; mkdir -p "$d"; rsync -a --exclude .git /repo/ "$d/"
trap 'rm -rf "$d" "$ROOT/.build/bin/"*".$(echo "$d" | sha256sum | cut -c1-10)" "$ROOT/.build/"*".$(echo "$d" | sha256sum | cut -c1-10)."*' EXIT
case "$change" in
  sed:*) IFS=: read -r _ file expr <<< "$change"; sed -i -e "$expr" "$d/$file"; if cmp -s "/repo/$file" "$d/$file"; then echo "MUTANT $name: NO CHANGE"; exit 3; fi;;
  *) (cd "$d" && patch -p1 -s < "$change") || { echo "MUTANT $name: patch failed"; exit 3; };;
esac
if [ -z "${SKIP_BASELINE:-}" ]; then
  if ! "$ROOT/tools/baseline.sh" "$d" > "$ROOT/.build/mut.$name.baseline.log" 2>&1; then
    echo "MUTANT $name: killed by the pinned suite: $(tail -3 "$ROOT/.build/mut.$name.baseline.log" | tr '\n' ' ')"; exit 4
  fi
  echo "MUTANT $name: survives the pinned suite ($(grep baseline: "$ROOT/.build/mut.$name.baseline.log"))"
fi
rc=0
for id in "$@"; do
  out=$(VERIF_REPO="$d" VERIF_EVIDENCE_DIR="$ROOT/.build/mut-evidence" VERIF_REPLAY_DIR="$ROOT/.build/mut-replays" "$ROOT/verif.sh" check "$id" "${TIER:-quick}" 2>&1); c=$?
  if [ $c = 1 ]; then echo "MUTANT $name: $id DETECTED: $(echo "$out" | grep -A1 '^VIOLATION' | head -2 | tr '\n' ' ' | cut -c1-300)";
  elif [ $c = 0 ]; then echo "MUTANT $name: $id MISSED"; rc=1;
  else echo "MUTANT $name: $id harness error ($c): $(echo "$out" | tail -3 | tr '\n' ' ' | cut -c1-300)"; rc=2; fi
done
exit $rc
