#!/usr/bin/env python3
"""Generate a `go build -overlay` file that injects /verif/harness/** into the
cog module as virtual packages (DESIGN.md §2.1).

  harness/<pkg>/<file>.go          -> <repo>/verifx/<pkg>/<file>.go
  harness/_inject/<repo-rel-path>  -> <repo>/<repo-rel-path>   (same-package shims)
"""
import json, os, sys

harness, repo = sys.argv[1], sys.argv[2]
replace = {}
for root, dirs, files in os.walk(harness):
    rel = os.path.relpath(root, harness)
    for f in files:
        if not (f.endswith(".go") or f.endswith(".tmpl") or f.endswith(".txt")):
            continue
        src = os.path.join(root, f)
        if rel.startswith("_inject"):
            sub = os.path.relpath(src, os.path.join(harness, "_inject"))
            dst = os.path.join(repo, sub)
        else:
            dst = os.path.join(repo, "verifx", rel, f)
        replace[dst] = src
json.dump({"Replace": replace}, sys.stdout, indent=1)
