#!/usr/bin/env python3
"""Regenerates MANIFEST.json from the table below and validates it."""
import json, os, sys
ROOT = os.path.dirname(os.path.dirname(os.path.abspath(__file__)))
ALL = ["C%02d" % i for i in range(1, 21)]

E1 = "E1 seqbfs"; E2 = "E2 mapsched"; E3 = "E3 shapeenum"
CHECKS = {
 "C19": dict(engine=E1, technique="explicit-state BFS to a fixpoint over the real orderedmap.Map, every transition compared with a slice-of-pairs reference model",
   text="All reachable private states (order, records) of the real map over keys {a,b,c}x{1,2} (thorough {a..d}x{1,2,3}) under 24 (37) operations are enumerated to a fixpoint; every read-only API result is compared with the reference model in every state, so the verdict covers operation sequences of any length over the alphabet.",
   note="State identity uses the private fields through an overlay-injected export shim; values outside the alphabet and At() out of range are not covered; Equal() on empty maps is not judged (not an operation the statement lists).", ref="§6 C19"),
 "C18": dict(engine=E1, technique="exhaustive enumeration of IR node values (reflection filler + grammar I) with copy/compare/alias analysis and single-location mutation of every reachable location of the copy",
   text="For each of the 36 IR node types with a DeepCopy method: zero value, all-fields-set values (every declared field non-zero, found by reflection so new fields are covered automatically), one value per single field, five contents for untyped slots, plus grammar-I types/schemas/builders. Every value is copied by the real DeepCopy; equality is checked field by field incl. unexported fields; the reachable address sets of original and copy must be disjoint; every reachable location of the copy is written once and the original's snapshot must not change.",
   note="Untyped slots that only ever hold immutable scalars are filled with scalars only; nil and empty collections are the same; a Schema always has a non-nil object map (ast.NewSchema). Values larger than the filler's recursion bound (2 quick / 3 thorough) are not covered.", ref="§6 C18"),
}

NOT_YET = "check not built yet in this session (planned, see DESIGN.md §6); not claimed until it runs clean on the unchanged tree"
NA = {}

def main():
    checks = []
    for pid in ALL:
        if pid not in CHECKS: continue
        c = CHECKS[pid]
        checks.append({
            "property_id": pid,
            "quick_cmd": f"./verif.sh check {pid} quick",
            "thorough_cmd": f"./verif.sh check {pid} thorough",
            "evidence_file": f"/verif/evidence/{pid}.json",
            "replay_cmd_template": "./verif.sh replay {path}",
            "engine": c["engine"],
            "level_claimed": {"category": "model_checking", "text": c["text"], "design_ref": c["ref"]},
            "level_note": c["note"],
            "technique": c["technique"],
        })
    na = [{"property_id": p, "reason": NA.get(p, NOT_YET)} for p in ALL if p not in CHECKS]
    m = {
     "version": 1,
     "setup_cmd": "./verif.sh setup",
     "hooks": {
      "guard": "verif",
      "enable": "go build -tags verif -overlay /verif/.build/overlay.json ./verifx/<harness>  (harness packages and same-package export shims are injected into the cog module by overlay; every injected file carries //go:build verif; /repo holds no hook commits)",
      "baseline_off_cmd": "cd /repo && go build -mod=mod ./... && go test -mod=mod -json -vet=off -count=1 -timeout 25m ./...",
      "source_commits": [],
      "add_only": True,
     },
     "engines": [
      {"name": E1, "path": "/verif/harness", "serves_properties": ["C05","C07","C15","C17","C18","C19"], "kind_free_text": "explicit-state breadth-first search whose transitions call the real functions; canonical-state deduplication; reference model compared on every transition"},
      {"name": E2, "path": "/verif/harness/sched", "serves_properties": ["C03","C07"], "kind_free_text": "stateless DFS over map-iteration-order choices under a controlled scheduler (range-over-map rewriter + iterator), deviation-bounded"},
      {"name": E3, "path": "/verif/harness/gen", "serves_properties": ["C01","C02","C04","C06","C08","C09","C10","C11","C12","C13","C14","C16","C20"], "kind_free_text": "exhaustive enumeration of a downward-closed, size-bounded grammar of inputs, each executed on the real implementation and compared with a reference model"},
     ],
     "checks": checks,
     "notes": "See DESIGN.md. Known findings: /verif/known_findings.json. Seeded changes: /verif/seeded/.",
     "not_applicable": na,
    }
    json.dump(m, open(os.path.join(ROOT, "MANIFEST.json"), "w"), indent=1)
    try:
        import jsonschema
        jsonschema.validate(m, json.load(open("/root/.vp/MANIFEST.schema.json")))
        print("MANIFEST.json valid;", len(checks), "checks,", len(na), "not claimed")
    except ImportError:
        print("MANIFEST.json written (jsonschema module not available for validation)")
main()
