#!/usr/bin/env python3
"""Regenerates MANIFEST.json from the table below and validates it."""
import json, os, sys
ROOT = os.path.dirname(os.path.dirname(os.path.abspath(__file__)))
ALL = ["C%02d" % i for i in range(1, 21)]

E1 = "E1 seqbfs"; E2 = "E2 mapsched"; E3 = "E3 shapeenum"
CHECKS = {
 "C19": dict(engine=E1, technique="explicit-state BFS to a fixpoint over the real orderedmap.Map, every transition compared with a slice-of-pairs reference model",
   text="All reachable private states (order, records) of the real map over keys {a,b,c}x{1,2} (thorough {a..d}x{1,2,3}) under 24 (37) operations are enumerated to a fixpoint; every read-only API result is compared with the reference model in every state, so the verdict covers operation sequences of any length over the alphabet.",
   note="State identity uses the private fields through an overlay-injected export shim; values outside the alphabet and At() out of range are not covered; Equal() on empty maps is not judged (not an operation the statement lists).", ref="§6 C19"),
 "C18": dict(engine=E1, technique="exhaustive enumeration of IR node values (reflection filler + grammar I) with copy/compare/alias analysis and single-location mutation of every reachable location of the copy",
   text="For each of the 36 IR node types with a DeepCopy method: zero value, all-fields-set values (every declared field non-zero, found by reflection so new fields are covered automatically), one value per single field, five contents for untyped slots, plus grammar-I types/schemas/builders. Every value is copied by the real DeepCopy; equality is checked field by field incl. unexported fields; the reachable address sets of original and copy must be disjoint; every reachable location of the copy is written once and the original's snapshot must not change.",
   note="Untyped slots that only ever hold immutable scalars are filled with scalars only; nil and empty collections are the same; a Schema always has a non-nil object map (ast.NewSchema). Values larger than the filler's recursion bound (2 quick / 3 thorough) are not covered.", ref="§6 C18"),
 "C03": dict(engine=E2, technique="stateless deviation-bounded DFS over map-iteration-order choices of the instrumented real pipeline (controlled scheduler), plus uniform per-site policies",
   text="Every `range <map>` in cog and codejen is rewritten (go/types-driven, at check time, on the current tree) to ask a scheduler for the order. For 13 pipeline scenarios (JSON Schema / OpenAPI / CUE inputs, common passes, veneers incl. compose and merge_into with chained renames, map-valued defaults, nested CUE libraries, overlapping unions of constants) x {run, inspect}: all schedules with <=1 dynamic point (thorough: <=2 on the reduced scenario) departing from the canonical order, all n! orders for n<=4, plus per-site reversal/rotation policies; each must reproduce the default schedule's file set, file hashes and inspect IR. Default schedule replayed 3x in 2 processes; replay divergence is a hard error; a canary map proves the scheduler drives executions.",
   note="Map iteration inside third-party libraries is not instrumented; sites never reached with >=2 keys are listed as not exercised; points with >4 keys offer rotations, reversal and adjacent transpositions only (reported as capped).", ref="§6 C03"),
 "C05": dict(engine=E3, technique="exhaustive enumeration of schemas x formats x language chains, explicit-state BFS over name-changing passes, all allow-list subsets; independent reference walker as invariant",
   text="(1) 189 abstract schemas x 3 formats through the real loaders, (2) ~1300 IRs x 7 language chains through Pipeline.ContextForLanguage with builders, (3) BFS depth<=2 (thorough 3) over rename/prefix/duplicate/unspec/replace_reference x target variants from 14 seeds, (4) every subset of every seed schema as allow-list; an independent walker (not compiler.Visitor) checks that every judged reference resolves / that the closure is exact.",
   note="References into packages that are not loaded are not judged; kindsys inputs and non-empty veneers are not covered; BFS does not reach a fixpoint (depth bound reported).", ref="§6 C05"),
 "C06": dict(engine=E3, technique="exhaustive enumeration of IR shapes (grammar I, downward closed) through each language's real pass chain; normal-form invariant by an independent walker",
   text="Every term of grammar I up to depth 3 (thorough 4, reduced leaves) in 4 placements x 5 languages through Pipeline.ContextForLanguage; the end state is checked against the statement's normal form (no unions for Go/Java, named enums, named structs outside allOf, optional => nullable, no T|null, member-name rules) by a walker that also visits map index types and union branches.",
   note="Chain errors are not judged (sanctioned refusal); hints are not walked; crashes are recorded for C04 and not judged here.", ref="§6 C06"),
 "C07": dict(engine=E2, technique="exhaustive enumeration of language subsets/orders (run order forced through the scheduler), input permutations, same-package input pairs, and argument-snapshot frame checks on every chain",
   text="Per seed: 7 alone runs, all 42 ordered language pairs and both orders of all seven (each language's files must equal its alone run); all 6 orders of 3 inputs; every base set plus an unrelated package first/last; every pair over {absent,v1,v2}^2 definitions x 2 root layouts of same-package inputs (union or conflict); every language chain on every seed/grammar-I IR with a before/after canonical snapshot of the argument. Runs execute in a crash- and hang-isolated worker.",
   note="In the unrelated-input part only files whose path names a pre-existing package are compared; hangs are bounded by a 30 s per-run deadline (runs take < 1 s) and end the part with exhaustive=false.", ref="§6 C07"),
 "C15": dict(engine=E1, technique="explicit-state BFS over sequences of the 19 transformations (loaded through the YAML loader) with a per-transformation reference model compared on every transition",
   text="From 11 seed IRs, all sequences of length <=2 (thorough 3, reduced alphabet) over ~110 parameterised operations (exact / other-case / absent / other-package targets); states deduplicated by canonical form; on every transition the real result of compiler.Passes.Process equals the model (written from the reference docs + Appendix A.1) on all objects, fields, comments, defaults, hints, orderings, and untargeted objects are identical including trails.",
   note="Returned errors are not judged; renames onto taken names and ambiguous matches are lenient; stale discriminator mappings may or may not follow a rename; enum member names are free under PrefixObjectNames.", ref="§6 C15, App. A.1"),
 "C16": dict(engine=E3, technique="exhaustive enumeration of schema sets (grammar I fields, aliases, cycles, cross-package constants) with an independent derivation model compared clause by clause",
   text="~40k (thorough ~184k) schema sets: every field type term x required/optional x decorations, alias chains, dangling and cyclic aliases, multi-field structs, object sets over two packages; BuilderGenerator.FromAST is compared with a derivation written from Appendix A.2 (which objects get builders; per field exactly one of option+assignment+constraints+default / constructor constant / nothing).",
   note="Order of builders/options, comments and trails are free; optional or nullable references to constants may be option or constant (statement silent).", ref="§6 C16, App. A.2"),
 "C20": dict(engine=E3, technique="exhaustive enumeration of configuration documents derived from the published JSON Schemas and, independently, from the loaders' Go structs; loader vs schema agreement",
   text="Every key path of schemas/*.json and of the reflected loader structs instantiated with a type-correct value; every closed mapping node with one undeclared key injected (4 values, 2 positions, merge keys, alias spellings); every rule list with empty/null/no-action entries; each document goes through the real loaders and through santhosh-tekuri against the published schema (python jsonschema cross-check); verdicts must agree in both directions.",
   note="Only key-level acceptance is compared; free-form positions are not injected; entries setting two actions are not judged.", ref="§6 C20"),
 "C01": dict(engine=E3, technique="exhaustive enumeration of grammar G x 3 input formats x document alphabets; real pipeline -> generated Go compiled and executed; reference validators (santhosh-tekuri, kin-openapi, cue) as oracle",
   text="Every schema of grammar G for the tier (quick ~330, thorough ~700 abstract schemas) is rendered in each input format that can express it, generated by the real pipeline (json marshaller + strict unmarshaller), compiled with the Go toolchain and linked into one reflective driver; every document of the finite value alphabet that all applicable reference validators accept is decoded with both decoders, re-encoded, re-validated by the source format's validator and compared for JSON equality (exact numbers, key order free, optional explicit null may disappear). Only minimal failing schemas (no failing one-step reduction) are reported.",
   note="Documents on which the reference validators disagree are excluded; packages that do not compile are counted as blocked_by=C02; values outside the alphabet (long strings, deep nesting > 3) are not covered.", ref="§6 C01"),
 "C17": dict(engine=E1, technique="explicit-state BFS over sequences of veneer rules loaded through the YAML loader and applied by the real rewriter; well-typedness invariant in every state and per-rule contracts on every transition",
   text="From the builder sets derived from 17 seed schemas, all rule sequences of length <=2 (thorough: full alphabet as second step + depth 3 reduced) over all 10 builder and 12 option rule kinds x selector forms (by object/name/builder/names, other-case, absent); every assignment path must name an existing chain of fields with matching types, every used argument must be declared, unselected builders/options must be canonically identical, and the Appendix A.4 contracts (omit/rename/duplicate/append/index/unfold/struct-fields/disjunction) must hold; duplicates must share no memory with their source.",
   note="Rules returning an error are allowed outcomes; an option a structural rule leaves unchanged is accepted; compose gets the frame check and the invariant only.", ref="§6 C17, App. A.4"),
 "C08": dict(engine=E3, technique="exhaustive enumeration of constraint-bearing schemas x formats x (valid documents + every single-fault document); reference evaluator (Appendix A.3) cross-checked against the reference validators",
   text="The constrained scalars of grammar G are placed at every position up to depth 2 (thorough 3: arrays, maps, nested/optional/referenced structs, union branches) plus the plain part for the strict-decoder clauses; for every valid document every fault operator is applied at every position (bounds below/at/above, lengths incl. multi-byte, unknown key, missing required with/without default, null, each wrong JSON type); Validate() must fail iff the evaluator finds a violated constraint and must name its path; UnmarshalJSONStrict must fail iff one of the four conditions holds. Evaluator and reference validators must agree on every comparable document (disagreement = harness error).",
   note="Validate() is judged only where the document determines the decoded value; null at non-nullable optional/element positions, enum non-members and constant mismatches leave the strict verdict unjudged; error wording and order are free.", ref="§6 C08, App. A.3"),
 "C10": dict(engine=E3, technique="exhaustive enumeration of default/constant-bearing schemas x 3 formats; generated Go and Python default constructors executed and compared with the declared literals and with each other",
   text="Fields with a declared default of every value type (bool, int, float, string, date-time, enum member, enum through a reference, lists, partial and complete struct defaults, union-branch defaults) and constants, required and optional, in every input format that can express them; one pipeline run generates Go and Python; NewX() / X() of every struct object are executed; each declared field must hold exactly its literal in both languages and the two must agree.",
   note="A default is judged only if the source format's own validator accepts it; defaults beside $ref in JSON Schema/OpenAPI and OpenAPI pseudo-constants are out of scope; fields without default/constant are not compared.", ref="§6 C10"),
 "C11": dict(engine=E3, technique="exhaustive enumeration of grammar G x 3 formats x accepted documents; generated Python executed in a long-lived interpreter and compared with the input and with the generated Go of the same run",
   text="One pipeline run per case generates Go and Python; every document all reference validators accept goes through Python from_json -> JSONEncoder and must be JSON-equal to the input (same leniences as C01) and to what the Go driver re-encodes; struct-typed positions must hold generated class instances (not raw dicts).",
   note="Modules that do not import are blocked_by=C02; exact numbers, key order free, optional explicit null may disappear.", ref="§6 C11"),
 "C12": dict(engine=E3, technique="exhaustive enumeration of grammar G (+ cross-package inputs) x formats; emitted JSON Schema/OpenAPI checked by independent loaders, cog's own parsers, $ref resolution, IR carry-over and validation of every Go encoding",
   text="Each case emits Go + JSON Schema + OpenAPI in one real run; (1) santhosh-tekuri compile, Python jsonschema check_schema, kin-openapi load+Validate, and a second pipeline run reading the emitted file back; (2) every $ref resolves, every IR object/field appears; (3) the Go re-encoding of every accepted document and of NewRoot() validates against the emitted definition (reported only when two validators agree); (4) required-ness, constraints (per dialect), enum values, constants, defaults and nullability are carried over from the IR.",
   note="Go that does not compile is blocked_by=C02; the JSON Schema input language cannot express cross-package references.", ref="§6 C12"),
 "C13": dict(engine=E3, technique="exhaustive enumeration of schemas x decoded value sets; full Equals matrix (all ordered pairs, all triples) computed by the generated code and checked against the equivalence laws and encoded equality",
   text="Per root type: the first 8 (thorough 12) valid documents plus every single-leaf variation of the richest one; the generated Equals is evaluated on all ordered pairs (one driver request per case returns the matrix and the std encodings); reflexivity, symmetry, transitivity (all triples), equal encodings => Equals, Equals => equal encodings modulo absent/null/empty collections, no panics; two Go configurations (equal+json marshaller, equal only).",
   note="Values whose decoding fails are skipped and counted; a difference the decoder itself loses demands nothing.", ref="§6 C13"),
 "C09": dict(engine=E3, technique="exhaustive enumeration of schemas x builder options x argument alphabets x option sequences (pairs; triples in thorough); generated Go and Python builders executed; expected object derived from the real builder IR",
   text="For every struct-rooted schema of grammar G (plain and with one veneer rule applied: append, index, struct-fields-as-options/arguments, disjunction-as-options, unfold-boolean) the builder IR is taken from the real pipeline; every option is called with every value of its argument's alphabet (valid, constraint-violating, failing nested builders built through the nested builder's own options), plus all ordered pairs of options (triples in thorough); the built object must differ from the default object exactly at the option's targets, constants must be present, invalid arguments must be reported (Go Build(), Python option call) and valid ones must not fail.",
   note="Absent/null/empty collections compare equal; intermediate objects created by nil-guards must equal their default constructor; units that do not compile are blocked_by=C02; builders with constructor arguments and combinations of veneer rules are not covered.", ref="§6 C09"),
 "C14": dict(engine=E3, technique="exhaustive enumeration of schemas x decoded values; generated converter executed, its output compiled in a second build and executed, rebuilt object compared with the input",
   text="Stage 1 calls the generated converter on the first <=10 valid documents of every struct-rooted schema (plain and veneered); stage 2 writes every returned expression into generated Go (one package per unit, per expression when a unit fails), compiles it with the toolchain and runs Build(); the expression must parse as a call chain over the builder API, compile, and rebuild every member in which the input differs from the default object; each option occurs at most once.",
   note="cog.Dump, which the Go runtime jenny never emits (a C02 finding), is supplied from testdata/generated/cog/runtime.go; members the input does not hold are not compared.", ref="§6 C14"),
 "C02": dict(engine=E3, technique="exhaustive enumeration of schemas x the complete product of Go output options (64 flag sets x 4 output selections), all languages x formats, and directly constructed IRs; generated trees checked with go build, python compile+import, javac and a placeholder scan",
   text="(A) 47 schemas (thorough: all 357 of grammar G's quick set) x all 256 Go configurations, every unit generated by the real pipeline and compiled with `go build` (byte-identical trees deduplicated); (B) every schema x 3 formats x Go/Python/Java/TypeScript/PHP configurations: Python byte-compiles and imports, Java compiles with javac against Jackson, TypeScript/PHP are scanned for placeholders; (C) grammar-I IRs injected through Pipeline.Transforms.CommonPasses. A run that returns an error passes (sanctioned refusal); a successful run must compile everywhere and contain no placeholder text. Failing configurations are reduced to the minimal flag condition.",
   note="No tsc/php on the image: only the placeholder clause is decided for TypeScript and PHP; composable-slot IRs are excluded (need a variants runtime); panics are recorded as crash kinds (C04).", ref="§6 C02"),
 "C04": dict(engine=E3, technique="exhaustive enumeration of well-formed special shapes, all truncations and single-token mutations of seed documents, all short symbol strings, all wrong-type substitutions in configuration templates, and small IRs; every case executed in crash- and hang-isolated workers",
   text="(a) ~1900 hand-rendered special shapes + grammar G in 3 formats x 7 languages x output selections; (b) for 114 seed documents every truncation offset and every token x 14 operators, plus all strings of <=3 (thorough 4) symbols, fed to the JSON Schema / OpenAPI / CUE / YAML entry points, and every IR the mutants still load into is run through the full pipeline; (c) every scalar position of 59 configuration templates replaced by 7 wrong-type values, 140 `if:` expressions, 78 `as:` types x passes and rules, then applied to a small schema; (d) ~2000 (thorough 7500) IRs incl. dangling and cyclic references through every pass, language chain, builder generator and jenny. A case passes if it returns files or an error; a recovered panic, a dead worker (stack overflow) or a hang is a finding identified by its crash site.",
   note="A hang is a request exceeding 30 s (cases take milliseconds) that reproduces three times in isolation; workers run with a 64 MiB stack limit and an address-space limit; map iteration inside one run is not controlled (one output language per run keeps the crashing language deterministic).", ref="§6 C04"),
}

# what the seeding rounds added to each space (DESIGN §11.7)
EXTRA = {
 "C01": "C01 alone also enumerates JSON Schema type-list spellings of nullable scalars (null first / last) and nullable inline structs in field, item and value positions.",
 "C04": "Also: 29 parameter sets x 23 interpolated settings (cycles, chains, self-growth) under a watchdog with three confirmations; the value types each front-end actually produces (const/default/enum x kind x Go dynamic type) through every pass; recursive array/map aliases in every position; struct-level defaults (17 member kinds x 10 values x 5 placements) in all formats and languages.",
 "C05": "Every language chain is also followed by name-changing FINAL passes in the same Passes.Process run (no deep copy in between) and BFS sequences are additionally applied in one run; OpenAPI discriminator mappings in bare, partial and partial-ref forms.",
 "C06": "Also wrapper towers to depth 5 (thorough 6), enums as member sequences (all sequences <= 3 over plain / numeric / negative names, string- and int-typed) and unions of constants in every order.",
 "C07": "Seeds include one with every path-resolving veneer kind; parts b/c also run in ten cross-reference variants (package i refers to Part of package j, every package has a Part; referrer-only packages sorting first and last). A base run that fails while every input generates alone is a violation.",
 "C08": "Defaults of every value type incl. empty/zero and defaults declared on the non-null branch of a nullable, x the remove-required fault.",
 "C09": "Two-package (twin) units per veneer variant; constrained schemas in all three formats; the xbounds flavour (]0,5]) with reference validators built from the rewritten text.",
 "C10": "Zero/empty defaults of every type, 2- and 3-level nested struct defaults in both declaration orders, boundary numerics (2^53+1, MaxInt64, ...) as constants, defaults and enum members, units enabling the anchored passes.",
 "C12": "Two- and three-package inputs; unions with a reference branch to a union / enum / alias object in every position, judged against the IR as loaded (before the emitters' own passes).",
 "C13": "A third configuration with two packages holding homonymous definitions (all ordered pairs, both input orders), multi-field shapes, the full matrix on each package's Root.",
 "C14": "Multi-rule veneer scenarios (duplicate + initialize + promote with 0-4 constant members), struct-level defaults with document classes as part of the failure kind, twin units.",
 "C15": "Multi-reference lists for every list-valued parameter (same name in 2-3 packages, case twins, absent first, both orders).",
 "C16": "A second layer goes through codegen.Pipeline.ContextForLanguage in 9 configurations (no language, final passes, each language) and derives the model from that context's own schemas; default flavours zero / emptylist / emptymap.",
 "C17": "Every builder rule kind also behind cross-package selectors (by_variant, generated_from_disjunction) over seeds with homonymous objects in several packages.",
 "C19": "Operations documented as returning a new map are checked for independence unconditionally (a result that IS the receiver fails); re-entrant histories (a callback of Iterate/Filter/Map removes or sets a key once) with a lenient oracle: no phantom keys, no duplicates, insertion order, untouched keys not skipped, final state = model.",
 "C20": "Items of all five unions (passes, builders, options, inputs, output.languages) are rule entries; lists [E,E], [W,E], [E,W], [W,E,W]; loading a pipeline = PipelineFromFile + the union resolution Run performs first.",
}
for _k, _v in EXTRA.items():
    CHECKS[_k]["text"] += " " + _v

NOT_YET = "check not built yet in this session (planned, see DESIGN.md §6); not claimed until it runs clean on the unchanged tree"
NA = {}

def main():
    checks = []
    for pid in ALL:
        if pid not in CHECKS: continue
        c = CHECKS[pid]
        checks.append({
            "property_id": pid,
            "quick_cmd": f"./verif.sh check {pid} quick",
            "thorough_cmd": f"./verif.sh check {pid} thorough",
            "evidence_file": f"/verif/evidence/{pid}.json",
            "replay_cmd_template": "./verif.sh replay {path}",
            "engine": c["engine"],
            "level_claimed": {"category": "model_checking", "text": c["text"], "design_ref": c["ref"]},
            "level_note": c["note"],
            "technique": c["technique"],
        })
    na = [{"property_id": p, "reason": NA.get(p, NOT_YET)} for p in ALL if p not in CHECKS]
    m = {
     "version": 1,
     "setup_cmd": "./verif.sh setup",
     "hooks": {
      "guard": "verif",
      "enable": "go build -tags verif -overlay /verif/.build/overlay.json ./verifx/<harness>  (harness packages and same-package export shims are injected into the cog module by overlay; every injected file carries //go:build verif; /repo holds no hook commits)",
      "baseline_off_cmd": "cd /repo && go build -mod=mod ./... && go test -mod=mod -json -vet=off -count=1 -timeout 25m ./...",
      "source_commits": [],
      "add_only": True,
     },
     "engines": [
      {"name": E1, "path": "/verif/harness", "serves_properties": ["C05","C07","C15","C17","C18","C19"], "kind_free_text": "explicit-state breadth-first search whose transitions call the real functions; canonical-state deduplication; reference model compared on every transition"},
      {"name": E2, "path": "/verif/harness/sched", "serves_properties": ["C03","C07"], "kind_free_text": "stateless DFS over map-iteration-order choices under a controlled scheduler (range-over-map rewriter + iterator), deviation-bounded"},
      {"name": E3, "path": "/verif/harness/gen", "serves_properties": ["C01","C02","C04","C06","C08","C09","C10","C11","C12","C13","C14","C16","C20"], "kind_free_text": "exhaustive enumeration of a downward-closed, size-bounded grammar of inputs, each executed on the real implementation and compared with a reference model"},
     ],
     "checks": checks,
     "notes": "See DESIGN.md. Known findings: /verif/known_findings.json. Seeded changes: /verif/seeded/.",
     "not_applicable": na,
    }
    json.dump(m, open(os.path.join(ROOT, "MANIFEST.json"), "w"), indent=1)
    try:
        import jsonschema
        jsonschema.validate(m, json.load(open("/root/.vp/MANIFEST.schema.json")))
        print("MANIFEST.json valid;", len(checks), "checks,", len(na), "not claimed")
    except ImportError:
        print("MANIFEST.json written (jsonschema module not available for validation)")
main()
