#!/bin/bash
# Re-run every kept seeded change through the check of the property it breaks (refreshes seeded/*/meta.json).
# usage: reseed_all.sh [id-prefix]
ROOT="$(cd "$(dirname "${BASH_SOURCE[0]}")/.." && pwd)"
for d in "$ROOT"/seeded/${1:-}*/; do
  id=$(basename "$d")
  prop=$(python3 -c "import json;print(json.load(open('$d/meta.json'))['breaks_property'])")
  demo=$(python3 -c "import json;print(json.load(open('$d/meta.json'))['demo_command'])")
  src=$(mktemp -d /var/tmp/verif-seedsrc.XXXXXX); cp "$d"/* "$src"/
  case "$demo" in *"./seed/$id/"*) DEMO_CMD="" "$ROOT/tools/seedcheck.sh" "$src" "$id" "$prop" "$prop";; *) DEMO_CMD="$demo" "$ROOT/tools/seedcheck.sh" "$src" "$id" "$prop" "$prop";; esac
  rm -rf "$src"
done
