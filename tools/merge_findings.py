#!/usr/bin/env python3
"""Merge reviewed --propose outputs into known_findings.json (run by hand after review; never at check time).
usage: merge_findings.py <propose-output-file>..."""
import json, sys, os
ROOT = os.path.dirname(os.path.dirname(os.path.abspath(__file__)))
p = os.path.join(ROOT, "known_findings.json")
d = json.load(open(p))
have = {(f["property"], f["key"]) for f in d["findings"]}
n = 0
for fn in sys.argv[1:]:
    t = open(fn).read()
    if "[\n" not in t: continue
    i = t.index("[\n"); j = t.rindex("]") + 1
    for f in json.loads(t[i:j]):
        k = (f["property"], f["key"])
        if k in have: continue
        have.add(k); d["findings"].append(f); n += 1
json.dump(d, open(p, "w"), indent=1, ensure_ascii=False)
print("added", n)
