#!/usr/bin/env python3
"""Merge reviewed --propose outputs into known_findings.json (run by hand after review; never at check time).
usage: merge_findings.py [--replace Cxx[,Cyy]] <propose-output-file>...
--replace drops the existing *open* entries of the given properties first (their
complete quick+thorough proposals must then be given)."""
import json, sys, os
ROOT = os.path.dirname(os.path.dirname(os.path.abspath(__file__)))
p = os.path.join(ROOT, "known_findings.json")
d = json.load(open(p))
args = sys.argv[1:]
if args and args[0] == "--replace":
    props = set(args[1].split(","))
    before = len(d["findings"])
    d["findings"] = [f for f in d["findings"] if not (f["property"] in props and f["status"] == "open")]
    print("dropped", before - len(d["findings"]), "open entries of", sorted(props))
    args = args[2:]
sys.argv[1:] = args
have = {(f["property"], f["key"]) for f in d["findings"]}
n = 0
for fn in sys.argv[1:]:
    t = open(fn).read()
    if "[\n" not in t: continue
    i = t.index("[\n"); j = t.rindex("]") + 1
    for f in json.loads(t[i:j]):
        k = (f["property"], f["key"])
        if k in have: continue
        have.add(k); d["findings"].append(f); n += 1
json.dump(d, open(p, "w"), indent=1, ensure_ascii=False)
print("added", n)
