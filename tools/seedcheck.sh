#!/bin/bash
# Confirm a seeded property-breaking change and run checks against it.
# usage: seedcheck.sh <seed-src-dir> <seed-id> <property> <check>...     (env DEMO_CMD overrides the demo command; TIER)
# 1. fresh scratch worktree of /repo HEAD; demo must PASS there
# 2. apply patch.diff; pinned suite must stay green; demo must FAIL
# 3. run the given checks against the patched worktree (VERIF_REPO), record DETECTED/MISSED
# 4. copy patch/demo/meta.json to /verif/seeded/<id>/ and remove the worktree
set -u
ROOT="$(cd "$(dirname "${BASH_SOURCE[0]}")/.." && pwd)"
src="$1"; id="$2"; prop="$3"; shift 3
export GOFLAGS=-mod=mod GOPROXY=off GOSUMDB=off GOTOOLCHAIN=local
wt=/tmp/sc-$id
git -C /repo worktree remove --force "$wt" 2>/dev/null; rm -rf "$wt"
git -C /repo worktree add -q --detach "$wt" HEAD || exit 2
trap 'git -C /repo worktree remove --force "$wt" 2>/dev/null; rm -rf "$wt"' EXIT
mkdir -p "$wt/seed"; cp -r "$src" "$wt/seed/$id"
demo="${DEMO_CMD:-}"
# copy-based demos: keep the stored demo files out of the project's own `go test ./...`
[ -n "$demo" ] && printf 'module seed\n\ngo 1.23\n' > "$wt/seed/go.mod"
if [ -z "$demo" ]; then
  f=$(ls "$wt/seed/$id"/*_test.go 2>/dev/null | head -1)
  tag=$(grep -m1 '^//go:build' "$f" 2>/dev/null | awk '{print $2}')
  if [ -n "$tag" ]; then demo="go test -tags $tag -vet=off -count=1 ./seed/$id/"; else demo="go test -vet=off -count=1 ./seed/$id/"; fi
fi
run_demo() { (cd "$wt" && eval "$demo") > "$ROOT/.build/seed.$id.demo.$1.log" 2>&1; }
run_demo clean; c0=$?
(cd "$wt" && git apply "seed/$id/patch.diff") || { echo "SEED $id: patch does not apply"; exit 3; }
run_demo patched; c1=$?
if "$ROOT/tools/baseline.sh" "$wt" > "$ROOT/.build/seed.$id.baseline.log" 2>&1; then suite=green; else suite=RED; fi
echo "SEED $id ($prop): demo clean-exit=$c0 patched-exit=$c1 suite=$suite ($(grep baseline: "$ROOT/.build/seed.$id.baseline.log"))"
results=""
for chk in "$@"; do
  out=$(VERIF_REPO="$wt" VERIF_EVIDENCE_DIR="$ROOT/.build/mut-evidence" VERIF_REPLAY_DIR="$ROOT/.build/mut-replays" "$ROOT/verif.sh" check "$chk" "${TIER:-quick}" 2>&1); c=$?
  if [ $c = 1 ]; then v=DETECTED; elif [ $c = 0 ]; then v=MISSED; else v="HARNESS-ERROR($c)"; fi
  echo "SEED $id: $chk $v: $(echo "$out" | grep -A1 '^VIOLATION' | head -2 | tr '\n' ' ' | cut -c1-260)"
  results="$results $chk=$v"
done
valid=no; [ $c0 = 0 ] && [ $c1 != 0 ] && [ $suite = green ] && valid=yes
if [ $valid = yes ]; then
  dst="$ROOT/seeded/$id"; mkdir -p "$dst"; cp "$src"/* "$dst"/ 2>/dev/null
  python3 - "$dst/meta.json" "$id" "$prop" "$demo" "$results" <<'PY'
import json, sys, os, re
dst, sid, prop, demo, results = sys.argv[1:6]
readme = ""
p = os.path.join(os.path.dirname(dst), "README.md")
if os.path.exists(p): readme = open(p).read()
needs = ""
m = re.search(r"(?is)(what (?:exactly )?is needed[^\n]*\n.*?)(?:\n#|\n\*\*|\Z)", readme)
meta = {"seed": sid, "breaks_property": prop, "confirmed": {"demo_passes_on_unchanged_tree": True, "demo_fails_with_change": True, "pinned_suite_green_with_change": True},
        "demo_command": demo, "needs_to_manifest": "see README.md", "checks_run": dict(r.split("=") for r in results.split())}
if os.path.exists(dst):
    try:
        old = json.load(open(dst)); old.get("checks_run", {}).update(meta["checks_run"]); meta["checks_run"] = old["checks_run"]
    except Exception: pass
json.dump(meta, open(dst, "w"), indent=1)
PY
else
  echo "SEED $id: NOT KEPT (demo/suite conditions not met)"
fi
