#!/bin/bash
# Prepare an independent seeding task: a scratch worktree of /repo under /tmp/seed-<id> holding
# TASK.md with ONLY the text of one property (nothing of /verif is shown to the seeder).
# usage: mkseedtask.sh <id> <Cxx> [extra-notes-file]
set -e
id=$1; prop=$2; extra=$3
ROOT="$(cd "$(dirname "${BASH_SOURCE[0]}")/.." && pwd)"
wt=/tmp/seed-$id
git -C /repo worktree add --detach "$wt" HEAD >/dev/null 2>&1
mkdir -p "$wt/seed"
python3 - "$ROOT/properties.jsonl" "$prop" "$id" > "$wt/TASK.md" <<'PY'
import json, sys
props, pid, sid = sys.argv[1], sys.argv[2], sys.argv[3]
p = next(json.loads(l) for l in open(props) if json.loads(l)["id"] == pid)
print(f"""# Task: two realistic changes that break one property of this code base

You are in a scratch git worktree of a Go project (grafana/cog: a schema-driven code generator; read README.md,
docs/ and the top-level layout first). Work ONLY inside this directory. Do not read or touch /repo or /verif.
The Go environment is offline: always `export GOFLAGS=-mod=mod GOPROXY=off GOSUMDB=off GOTOOLCHAIN=local`.

## The property

**{p['title']}**

{p['statement']}

Quantified over: {p['quantifier']['text']}

Why the project's tests cannot settle it: {p['why_tests_cant']}

Where it lives: {', '.join(p['anchors']['files'])}

## What to produce

Two (optionally three) DIFFERENT changes to the project's non-test source, each of which

1. compiles, and keeps the project's whole test suite green, unedited:
   `go test ./... 2>&1 | tail -40` must show no FAIL (run it; a change the suite catches is useless);
2. breaks the property above in a way a user would experience;
3. is *realistic*: the kind of slip a competent developer makes in a refactoring or a "small improvement"
   (a cache keyed too coarsely, state kept across objects/packages of one run, a loop bound or index taken from the
   neighbouring variable, a copy that shares a slice, a condition inverted for one kind only, a default taken from
   the wrong place, an early return in a guard, ...). Not a blunt deletion of a feature, and not something every
   input hits: it must need something SPECIFIC to manifest (a particular shape, order, sequence, parameter or
   combination) — say exactly what;
4. comes with a demonstration: a Go test file (say in the README into which package directory it must be copied and
   the exact `go test -run` pattern) that passes on the unchanged tree and fails with your change, through the
   project's real entry points.

Prefer mechanisms that are far from each other (different files, different stages). Look beyond the most obvious
place: front-end slips only one input format exhibits, passes that need a particular neighbouring construct,
template branches that only nested / aliased / nullable shapes reach, state shared across packages in one run.
Check your demonstration on the unchanged tree first: the tree has some pre-existing defects, and a change that only
re-creates a symptom the unchanged tree already shows for the same input is not useful.

## Deliverables (all under ./seed/, nothing else is read)

For each change k = 1, 2(, 3): `seed/{sid}-k/patch.diff` (`git diff` of the non-test source, applying with
`git apply` on this worktree's HEAD), `seed/{sid}-k/demo_test.go`, `seed/{sid}-k/README.md` (the change, which part
of the property it breaks, what is needed for it to manifest, how to run the demo and what it prints before/after).
Put a `seed/go.mod` (`module seed`) so that `go test ./...` does not pick your demo files up.
Leave the worktree itself clean at the end (`git checkout -- . && git clean -fdq -e seed`), and report the list of
changes with one line each.
""")
PY
[ -n "$extra" ] && cat "$extra" >> "$wt/TASK.md"
echo "$wt/TASK.md"
