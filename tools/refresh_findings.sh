#!/bin/bash
# Maintenance: regenerate the open known findings and the baseline failure sets of the given
# properties from the CURRENT /repo (to be run on the unchanged tree only, after reviewing that
# nothing but enumeration/identity changes or already-classified findings are involved).
# usage: refresh_findings.sh Cxx [Cyy ...]
ROOT="$(cd "$(dirname "${BASH_SOURCE[0]}")/.." && pwd)"
cd "$ROOT" || exit 2
for id in "$@"; do
  cp known_findings.json ".build/known_findings.before.$id.json"
  python3 tools/merge_findings.py --replace "$id" /dev/null
  rm -f "baseline_failures/$id".*.txt
  for tier in quick thorough; do
    VERIF_EVIDENCE_DIR="$ROOT/.build/ev-$tier" timeout 3400 ./verif.sh check "$id" "$tier" --propose --record-baseline > ".build/refresh.$id.$tier.txt" 2>&1
    echo "$id $tier: $(grep 'baseline recorded' ".build/refresh.$id.$tier.txt" | cut -c1-60) | $(tail -1 ".build/refresh.$id.$tier.txt" | cut -c1-140)"
  done
  python3 tools/merge_findings.py ".build/refresh.$id.quick.txt" ".build/refresh.$id.thorough.txt"
  # report kinds that are new with respect to the previous list (to be reviewed by hand)
  python3 - "$id" <<'PY'
import json, sys
pid = sys.argv[1]
old = {f["key"].split(" @ ")[0] for f in json.load(open(f".build/known_findings.before.{pid}.json"))["findings"] if f["property"] == pid and f["status"] == "open"}
new = {f["key"].split(" @ ")[0] for f in json.load(open("known_findings.json"))["findings"] if f["property"] == pid and f["status"] == "open"}
added = sorted(new - old)
print(f"{pid}: {len(new)} kinds now, {len(added)} kinds not listed before")
for k in added[:40]: print("   NEW KIND:", k[:200])
PY
done
